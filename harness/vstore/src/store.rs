//! History interpreter shared by the storage-engine checks (C01, C02, C03, C04, C19) and
//! reused by the crash checks (C05, C06).

use std::collections::{BTreeMap, HashMap};
use std::os::unix::fs::{FileExt, MetadataExt};
use std::path::{Path, PathBuf};

use serde_json::{Value, json};
use sierradb::bucket::segment::{CommittedEvents, EventRecord};
use sierradb::database::{Database, ExpectedVersion, NewEvent, Transaction};
use sierradb::error::WriteError;
use sierradb::id::set_uuid_flag;
use sierradb::writer_thread_pool::AppendResult;
use sierradb::{IterDirection, StreamId};
use smallvec::SmallVec;
use uuid::Uuid;
use vlib::{CaseOut, Env, Tape, expand_bytes};

use crate::dbx::{DbCfg, key_hash, make_id, partition_key};
use crate::model::{Accept, MEvent, Model, Reject, SEGMENT_HEADER_SIZE, TxInput, estimated_size};

// ------------------------------------------------------------------------------------------
// generated operations (model-relative, so shrinking keeps their meaning)

#[derive(Clone, Debug)]
pub enum ExpectKind {
    Any,
    Right,   // the expectation that holds right now (Empty or Exact(current))
    Exists,
    Empty,
    Off(i64), // Exact(current + d), d != 0 (or Exact(d-1) when empty)
    Huge(u64),
}

#[derive(Clone, Debug)]
pub struct EvGen {
    pub stream: u8,
    pub expect: ExpectKind,
    pub payload_len: usize,
    pub payload_kind: u8, // 0 zeros 1 text 2 incompressible 3 barely compressible
    pub seed: u32,
    pub meta_len: usize,
    pub name_len: usize,
    pub ts: u8, // 0 normal, 1 zero, 2 2^63-1, 3 >= 2^63
}

#[derive(Clone, Debug)]
pub struct TxGen {
    pub key_override: Option<u8>,
    pub events: Vec<EvGen>,
    pub seq_expect: ExpectKind,
    pub confirmation: u8,
}

#[derive(Clone, Debug)]
pub enum Pos {
    Zero,
    Exact(u8),  // index into existing positions (mod len)
    End,        // last position
    Beyond(u8), // last + 1 + k
    Max,        // u64::MAX
}

#[derive(Clone, Debug)]
pub enum Op {
    Append(TxGen),
    Batch(Vec<TxGen>),
    Boundary { delta: i64, kind: u8, seed: u32, stream: u8, multi: bool },
    ReadEvent { pick: u16, unknown: bool },
    ReadTx { pick: u16 },
    ScanStream { stream: u8, from: Pos, reverse: bool, batch: u8 },
    ScanPartition { part: u8, from: Pos, reverse: bool, batch: u8 },
    Versions,
    Reopen,
}

pub const N_STREAMS: u8 = 6;
pub const N_KEYS: u8 = 4;

pub struct GenWeights {
    pub append: u32,
    pub batch: u32,
    pub boundary: u32,
    pub read_event: u32,
    pub read_tx: u32,
    pub scan_stream: u32,
    pub scan_partition: u32,
    pub versions: u32,
    pub reopen: u32,
    pub big_payload: u32,
    pub bad_input: u32,
    pub multi: u32,
    pub wrong: u32,
}

impl GenWeights {
    pub fn base() -> GenWeights {
        GenWeights { append: 10, batch: 3, boundary: 0, read_event: 2, read_tx: 1, scan_stream: 3, scan_partition: 3, versions: 1, reopen: 1, big_payload: 3, bad_input: 2, multi: 4, wrong: 1 }
    }
}

fn gen_expect(t: &mut Tape, w_wrong: u32) -> ExpectKind {
    match t.weighted(&[10, 9, 1, 1, w_wrong, if w_wrong > 0 { 1 } else { 0 }]) {
        0 => ExpectKind::Any,
        1 => ExpectKind::Right,
        2 => ExpectKind::Exists,
        3 => ExpectKind::Empty,
        4 => {
            let d = 1 + t.below(3) as i64;
            ExpectKind::Off(if t.bool() { d } else { -d })
        }
        _ => ExpectKind::Huge(*t.pick(&[u64::MAX, u64::MAX - 1, 1 << 63, (1 << 32) + 7])),
    }
}

fn gen_event(t: &mut Tape, w: &GenWeights) -> EvGen {
    let stream = t.below(N_STREAMS as u64) as u8;
    let expect = gen_expect(t, w.wrong);
    let payload_len = match t.weighted(&[8, 6, 3, w.big_payload, w.big_payload, 1]) {
        0 => t.below(64) as usize,
        1 => 64 + t.below(400) as usize,
        2 => 1800 + t.below(2600) as usize,             // around the 2 KiB / 4 KiB read buffers
        3 => 12_000 + t.below(20_000) as usize,         // a few of these force a rollover at 128 KiB
        4 => 61_000 + t.below(9_000) as usize,          // around the 64 KiB block cache boundary
        _ => 120_000 + t.below(30_000) as usize,        // around / above the minimum segment size
    };
    let payload_kind = t.below(3) as u8;
    let seed = t.raw();
    let meta_len = match t.weighted(&[6, 2, 1]) {
        0 => 0,
        1 => t.below(40) as usize,
        _ => 100 + t.below(3000) as usize,
    };
    let name_len = match t.weighted(&[16, 3, w.bad_input.min(1)]) {
        0 => 1 + t.below(12) as usize,
        1 => *t.pick(&[0usize, 254, 255]),
        _ => 256 + t.below(10) as usize,
    };
    let ts = match t.weighted(&[20, 1, 1, w.bad_input]) {
        0 => 0,
        1 => 1,
        2 => 2,
        _ => 3,
    };
    EvGen { stream, expect, payload_len, payload_kind, seed, meta_len, name_len, ts }
}

pub fn gen_tx(t: &mut Tape, w: &GenWeights) -> TxGen {
    let n = if t.weighted(&[10, w.multi]) == 0 { 1 } else { 2 + t.usize_below(4) };
    let mut events = Vec::new();
    for _ in 0..n {
        let mut e = gen_event(t, w);
        if n > 1 && t.chance(1, 3) && !events.is_empty() {
            // repeat a stream of this transaction
            let prev: &EvGen = &events[t.usize_below(events.len())];
            e.stream = prev.stream;
        }
        events.push(e);
    }
    let key_override = if t.chance(1, 12) { Some(t.below(N_KEYS as u64) as u8) } else { None };
    let seq_expect = match t.weighted(&[8, 2]) {
        0 => ExpectKind::Any,
        _ => gen_expect(t, w.wrong + 1),
    };
    TxGen { key_override, events, seq_expect, confirmation: 0 }
}

fn gen_pos(t: &mut Tape) -> Pos {
    match t.weighted(&[3, 5, 2, 2, 1]) {
        0 => Pos::Zero,
        1 => Pos::Exact(t.below(256) as u8),
        2 => Pos::End,
        3 => Pos::Beyond(t.below(3) as u8),
        _ => Pos::Max,
    }
}

/// One operation per tape slot (slot 0 holds the configuration).
pub fn gen_ops(t: &mut Tape, w: &GenWeights) -> Vec<Op> {
    let mut ops = Vec::new();
    while t.next_slot() {
        let op = match t.weighted(&[w.append, w.batch, w.boundary, w.read_event, w.read_tx, w.scan_stream, w.scan_partition, w.versions, w.reopen]) {
            0 => Op::Append(gen_tx(t, w)),
            1 => {
                let k = 2 + t.usize_below(3);
                Op::Batch((0..k).map(|_| gen_tx(t, w)).collect())
            }
            2 => Op::Boundary { delta: *t.pick(&[0i64, -1, 1, -2, 2, -8, 8, -37, 37, -93]), kind: t.below(4) as u8, seed: t.raw(), stream: t.below(N_STREAMS as u64) as u8, multi: t.chance(1, 4) },
            3 => Op::ReadEvent { pick: t.below(65536) as u16, unknown: t.chance(1, 6) },
            4 => Op::ReadTx { pick: t.below(65536) as u16 },
            5 => Op::ScanStream { stream: t.below(N_STREAMS as u64) as u8, from: gen_pos(t), reverse: t.chance(2, 5), batch: 1 + t.below(60) as u8 },
            6 => Op::ScanPartition { part: t.below(16) as u8, from: gen_pos(t), reverse: t.chance(2, 5), batch: 1 + t.below(60) as u8 },
            7 => Op::Versions,
            _ => Op::Reopen,
        };
        ops.push(op);
    }
    ops
}

pub fn stream_name(i: u8) -> String {
    match i {
        0 => "s0".to_string(),
        1 => "a".to_string(),
        2 => format!("stream-{}", "x".repeat(57)), // 64 bytes: the maximum
        3 => "order-42".to_string(),
        4 => "üñí-ω".to_string(),
        _ => format!("s{i}"),
    }
}

pub fn payload_bytes(kind: u8, seed: u32, len: usize) -> Vec<u8> {
    match kind {
        0 => vec![0u8; len],
        1 => {
            let pat = b"{\"amount\":100,\"currency\":\"EUR\"}";
            (0..len).map(|i| pat[(i + seed as usize) % pat.len()]).collect()
        }
        2 => expand_bytes(seed as u64, len),
        _ => {
            // barely compressible: random bytes with one short run (8-31 identical bytes), so that
            // the compressor saves about as many bytes as its own framing costs
            let mut v = expand_bytes(seed as u64, len);
            let k = 8 + (seed as usize >> 7) % 24;
            if len > 2 * k + 16 {
                let at = len / 2;
                let b = v[at];
                for x in &mut v[at..at + k] {
                    *x = b;
                }
            }
            v
        }
    }
}

// ------------------------------------------------------------------------------------------
// interpreter

pub struct Stats {
    pub exit_snapshots: u64,
    pub accepted: u64,
    pub rejected: u64,
    pub rollovers: u64,
    pub reopens: u64,
    pub failed_multi_after_first: u64,
    pub acked_after_rollover: bool,
    pub acked_after_failed_multi: bool,
    pub reopen_after_interesting: bool,
    pub scans: u64,
    pub scans_nontrivial: u64,
    pub reads: u64,
    pub same_stream_accept_and_reject: bool,
    pub tx_repeats_stream: bool,
    pub seq_expect_used: bool,
    pub stream_across_rollover_or_reopen: bool,
    pub boundary_between: u64,
    pub boundary_appends: u64,
    pub uncommitted_touched: u64,
}

impl Default for Stats {
    fn default() -> Self {
        Stats { exit_snapshots: 0, accepted: 0, rejected: 0, rollovers: 0, reopens: 0, failed_multi_after_first: 0, acked_after_rollover: false, acked_after_failed_multi: false, reopen_after_interesting: false, scans: 0, scans_nontrivial: 0, reads: 0, same_stream_accept_and_reject: false, tx_repeats_stream: false, seq_expect_used: false, stream_across_rollover_or_reopen: false, boundary_between: 0, boundary_appends: 0, uncommitted_touched: 0 }
    }
}

pub struct Interp<'a> {
    pub cfg: DbCfg,
    pub dir: PathBuf,
    pub db: Option<Database>,
    pub model: Model,
    pub focus: &'static str,
    pub out: &'a mut CaseOut,
    pub env: &'a Env,
    pub stopped: bool,
    pub stats: Stats,
    pub rendered: Vec<Value>,
    pub next_id: u64,
    /// per bucket: (offset right after the last acknowledged record of the live segment)
    pub live_end: HashMap<u16, u64>,
    pub stream_rejected: HashMap<String, bool>,
    pub stream_accepted: HashMap<String, bool>,
    pub stream_last_epoch: HashMap<(u16, String), u64>,
    pub epoch: u64,
    pub pending_interesting: bool,
    /// run the oracles of every property and report all failures under this property id
    /// (used by the crash checks, where any divergence from the model is the finding)
    pub report_as: Option<&'static str>,
    /// prefix inserted into signatures in `report_as` mode (classification of the crash cut)
    pub sig_prefix: String,
    /// at every reopen, also judge the state a process exit *at the return of shutdown()* would
    /// leave behind (a snapshot of the directory taken at that instant must open and pass the audit)
    pub exit_snapshot: bool,
}

/// Copies a database directory; `indexes` selects the index files (true) or everything else.
fn copy_dir_filtered(src: &std::path::Path, dst: &std::path::Path, indexes: bool) -> std::io::Result<()> {
    std::fs::create_dir_all(dst)?;
    for e in std::fs::read_dir(src)? {
        let e = e?;
        let p = e.path();
        let d = dst.join(e.file_name());
        if p.is_dir() {
            copy_dir_filtered(&p, &d, indexes)?;
        } else {
            let name = e.file_name().to_string_lossy().to_string();
            let is_index = name.ends_with(".eidx") || name.ends_with(".pidx") || name.ends_with(".sidx");
            if is_index == indexes {
                std::fs::copy(&p, &d)?;
            }
        }
    }
    Ok(())
}

pub fn render_expected(e: ExpectedVersion) -> String {
    e.to_string()
}

impl<'a> Interp<'a> {
    pub fn new(cfg: DbCfg, dir: &Path, focus: &'static str, out: &'a mut CaseOut, env: &'a Env) -> Interp<'a> {
        let buckets = cfg.buckets;
        Interp { cfg, dir: dir.to_path_buf(), db: None, model: Model::new(buckets), focus, out, env, stopped: false, stats: Stats::default(), rendered: Vec::new(), next_id: 1, live_end: HashMap::new(), stream_rejected: HashMap::new(), stream_accepted: HashMap::new(), stream_last_epoch: HashMap::new(), epoch: 0, pending_interesting: false, report_as: None, sig_prefix: String::new(), exit_snapshot: false }
    }

    pub fn open(&mut self) -> bool {
        match self.cfg.open(&self.dir) {
            Ok(db) => {
                self.db = Some(db);
                true
            }
            Err(e) => {
                if vlib::is_resource_exhaustion(&format!("{e}")) {
                    // the machine, not the database: the case is inconclusive
                    self.out.class("inconclusive-resource-exhaustion");
                    self.out.count("inconclusive_resource_exhaustion", 1);
                    self.stopped = true;
                    return false;
                }
                self.fail("C01", "reopen/open-failed", format!("opening the database failed: {e}"));
                false
            }
        }
    }

    pub fn fail(&mut self, prop: &str, sig: &str, msg: String) {
        self.stopped = true;
        if vlib::is_resource_exhaustion(&msg) {
            // the machine ran out of descriptors/threads/memory: inconclusive, not a verdict
            self.out.class("inconclusive-resource-exhaustion");
            self.out.count("inconclusive_resource_exhaustion", 1);
            return;
        }
        if let Some(as_prop) = self.report_as {
            let pre = if self.sig_prefix.is_empty() { String::new() } else { format!("{}/", self.sig_prefix) };
            self.out.fail(format!("{as_prop}/{pre}{prop}-{sig}"), msg);
        } else if prop == self.focus {
            self.out.fail(format!("{prop}/{sig}"), msg);
        } else {
            self.out.foreign.push(format!("{prop}/{sig}"));
        }
    }

    fn on(&self, prop: &str) -> bool {
        self.report_as.is_some() || self.focus == prop
    }

    pub fn db(&self) -> &Database {
        self.db.as_ref().unwrap()
    }

    pub fn key_for(&self, k: u8) -> (Uuid, u16) {
        let key = partition_key(k as u16, self.cfg.partitions);
        let pid = key_hash(k as u16, self.cfg.partitions) % self.cfg.partitions;
        (key, pid)
    }

    fn resolve_expect(&self, k: &ExpectKind, cur: Option<u64>) -> ExpectedVersion {
        match k {
            ExpectKind::Any => ExpectedVersion::Any,
            ExpectKind::Right => match cur {
                None => ExpectedVersion::Empty,
                Some(v) => ExpectedVersion::Exact(v),
            },
            ExpectKind::Exists => ExpectedVersion::Exists,
            ExpectKind::Empty => ExpectedVersion::Empty,
            ExpectKind::Off(d) => match cur {
                None => ExpectedVersion::Exact((*d).unsigned_abs() - 1),
                Some(v) => {
                    let x = v as i128 + *d as i128;
                    if x < 0 { ExpectedVersion::Empty } else { ExpectedVersion::Exact(x as u64) }
                }
            },
            ExpectKind::Huge(v) => ExpectedVersion::Exact(*v),
        }
    }

    /// Turn a generated transaction into concrete input against the current model state.
    pub fn concretize(&mut self, g: &TxGen) -> TxInput {
        let first_stream = g.events[0].stream;
        let key_idx = g.key_override.unwrap_or(first_stream % N_KEYS);
        let (key, pid) = self.key_for(key_idx);
        let hash = key_hash(key_idx as u16, self.cfg.partitions);
        let mut in_tx: HashMap<String, u64> = HashMap::new();
        let mut events = Vec::new();
        for e in &g.events {
            let sid = stream_name(e.stream);
            let cur = match in_tx.get(&sid) {
                Some(n) => Some(*n - 1),
                None => self.model.stream_version(pid, &sid).map(|(_, v)| v),
            };
            let expect = self.resolve_expect(&e.expect, cur);
            in_tx.insert(sid.clone(), cur.map(|c| c + 2).unwrap_or(1));
            let id = self.next_id;
            self.next_id += 1;
            let timestamp = match e.ts {
                0 => 1_700_000_000_000_000_000 + id * 1000,
                1 => 0,
                2 => (1u64 << 63) - 1,
                _ => (1u64 << 63) + (e.seed as u64),
            };
            let name: String = (0..e.name_len).map(|i| (b'A' + ((i + e.seed as usize) % 26) as u8) as char).collect();
            events.push(NewEvent {
                event_id: make_id(hash, id, e.seed as u64),
                stream_id: StreamId::new(sid).unwrap(),
                stream_version: expect,
                event_name: name,
                timestamp,
                metadata: payload_bytes(1, e.seed ^ 0x55, e.meta_len),
                payload: payload_bytes(e.payload_kind, e.seed, e.payload_len),
            });
        }
        let expected_seq = self.resolve_expect(&g.seq_expect, self.model.partition_sequence(pid));
        let txn = self.next_id;
        self.next_id += 1;
        let tx_id = set_uuid_flag(make_id(hash, 0x7000_0000 + txn, 0x7e57), events.len() == 1);
        TxInput { key, partition_id: pid, tx_id, events, expected_seq, confirmation: g.confirmation }
    }

    pub fn to_transaction(tx: &TxInput) -> Transaction {
        let events: SmallVec<[NewEvent; 4]> = tx.events.iter().cloned().collect();
        Transaction::new(tx.key, tx.partition_id, events)
            .expect("ids are built for the key")
            .expected_partition_sequence(tx.expected_seq)
            .with_transaction_id(tx.tx_id)
            .with_confirmation_count(tx.confirmation)
    }

    pub fn render_tx(tx: &TxInput) -> Value {
        json!({
            "partition": tx.partition_id,
            "expected_seq": tx.expected_seq.to_string(),
            "events": tx.events.iter().map(|e| json!({"stream": &*e.stream_id, "expect": e.stream_version.to_string(), "payload": e.payload.len(), "meta": e.metadata.len(), "name": e.event_name.len(), "ts": if e.timestamp >> 63 == 1 { ">=2^63".to_string() } else { e.timestamp.to_string() }})).collect::<Vec<_>>(),
        })
    }

    /// Compare the outcome of an append with the model; keeps the model in sync.
    /// Returns the model tx index if accepted by both.
    pub fn settle_append(&mut self, tx: &TxInput, res: &Result<AppendResult, WriteError>) -> Option<usize> {
        let decision = self.model.decide(tx, self.cfg.segment_size);
        for e in &tx.events {
            match &decision {
                Ok(_) => {
                    self.stream_accepted.insert(e.stream_id.to_string(), true);
                }
                Err(_) => {
                    self.stream_rejected.insert(e.stream_id.to_string(), true);
                }
            }
        }
        match (&decision, res) {
            (Ok(acc), Ok(r)) => {
                // assigned sequences / versions
                if r.first_partition_sequence != acc.first_seq || r.last_partition_sequence != acc.last_seq {
                    self.fail("C02", "append/wrong-sequence-assigned", format!("append reported partition sequences {}..={} but the model assigns {}..={}", r.first_partition_sequence, r.last_partition_sequence, acc.first_seq, acc.last_seq));
                    return None;
                }
                let mut last: BTreeMap<String, u64> = BTreeMap::new();
                for (e, v) in tx.events.iter().zip(&acc.versions) {
                    last.insert(e.stream_id.to_string(), *v);
                }
                let got: BTreeMap<String, u64> = r.stream_versions.iter().map(|(k, v)| (k.to_string(), *v)).collect();
                if got != last {
                    self.fail("C02", "append/wrong-version-assigned", format!("append reported stream versions {got:?}, the model assigns {last:?}"));
                    return None;
                }
                if r.offsets.len() != tx.events.len() {
                    self.fail("C02", "append/offset-count", format!("{} offsets for {} events", r.offsets.len(), tx.events.len()));
                    return None;
                }
                let idx = self.model.apply(tx, acc);
                self.stats.accepted += 1;
                Some(idx)
            }
            (Err(rej), Err(_)) => {
                self.stats.rejected += 1;
                if rej.mid_write_after_first() {
                    self.stats.failed_multi_after_first += 1;
                    self.pending_interesting = true;
                }
                None
            }
            (Ok(acc), Err(e)) => {
                let space = matches!(e, WriteError::Writer(seglog::write::WriteError::SegmentFull { .. }));
                if space {
                    self.fail("C19", "append/segment-full", format!("append whose estimated size ({} bytes) fits an empty segment of {} bytes was rejected: {e}", estimated_size(&tx.events), self.cfg.segment_size));
                } else {
                    self.fail("C02", "append/rejected-valid", format!("append rejected ({e}) although every condition holds in the model (would get sequences {}..={}): {}", acc.first_seq, acc.last_seq, Self::render_tx(tx)));
                }
                None
            }
            (Err(rej), Ok(r)) => {
                self.fail("C02", "append/accepted-invalid", format!("append accepted (sequences {}..={}) although the model rejects it ({rej:?}): {}", r.first_partition_sequence, r.last_partition_sequence, Self::render_tx(tx)));
                None
            }
        }
    }

    pub fn note_tx_classes(&mut self, tx: &TxInput) {
        let mut seen = std::collections::HashSet::new();
        for e in &tx.events {
            if !seen.insert(e.stream_id.to_string()) {
                self.stats.tx_repeats_stream = true;
            }
        }
        if !matches!(tx.expected_seq, ExpectedVersion::Any) {
            self.stats.seq_expect_used = true;
        }
    }

    /// After an acknowledged append: bookkeeping of live segment end, rollover detection.
    pub fn track_layout(&mut self, tx: &TxInput, r: &AppendResult) {
        let bucket = self.cfg.bucket_of(tx.partition_id);
        let first = r.offsets[0];
        let prev_end = self.live_end.get(&bucket).copied().unwrap_or(SEGMENT_HEADER_SIZE as u64);
        if first < prev_end {
            self.stats.rollovers += 1;
            self.epoch += 1;
            self.pending_interesting = true;
            self.stats.acked_after_rollover = true;
        }
        if self.stats.failed_multi_after_first > 0 {
            self.stats.acked_after_failed_multi = true;
        }
        // stored length of the last event record
        let last = *r.offsets.last().unwrap();
        let end = match self.record_len_at(bucket, last, &tx.events.last().unwrap().event_id) {
            Some((_, len)) => last + len as u64 + if tx.events.len() > 1 { 37 } else { 0 },
            None => last,
        };
        self.live_end.insert(bucket, end);
        for e in &tx.events {
            let k = (bucket, e.stream_id.to_string());
            if let Some(prev) = self.stream_last_epoch.get(&k) {
                if *prev != self.epoch {
                    self.stats.stream_across_rollover_or_reopen = true;
                }
            }
            self.stream_last_epoch.insert(k, self.epoch);
        }
    }

    pub fn segment_files(&self, bucket: u16) -> Vec<(u32, PathBuf)> {
        let dir = self.dir.join("buckets").join(format!("{bucket:05}")).join("segments");
        let mut v = Vec::new();
        if let Ok(rd) = std::fs::read_dir(&dir) {
            for e in rd.flatten() {
                if let Some(id) = e.file_name().to_str().and_then(|s| s.parse::<u32>().ok()) {
                    let p = e.path().join("data.evts");
                    if p.exists() {
                        v.push((id, p));
                    }
                }
            }
        }
        v.sort();
        v
    }

    /// Find the segment file whose record at `offset` carries `event_id`; returns (path, stored len).
    pub fn record_len_at(&self, bucket: u16, offset: u64, event_id: &Uuid) -> Option<(PathBuf, usize)> {
        for (_, path) in self.segment_files(bucket).into_iter().rev() {
            let Ok(f) = std::fs::File::open(&path) else { continue };
            let mut head = [0u8; 8];
            if f.read_exact_at(&mut head, offset).is_err() {
                continue;
            }
            let len = (u32::from_le_bytes(head[..4].try_into().unwrap()) & 0x7FFF_FFFF) as usize;
            if len < 41 || len > self.cfg.segment_size {
                continue;
            }
            let mut buf = vec![0u8; 8 + len];
            if f.read_exact_at(&mut buf, offset).is_err() {
                continue;
            }
            if let Ok((_, data, total)) = seglog::parse::parse_record::<1>(&buf, 0) {
                if data.len() >= 40 && &data[24..40] == event_id.as_bytes() {
                    return Some((path, total));
                }
            }
        }
        None
    }

    // ---------------------------------------------------------------- comparisons

    pub fn cmp_event(&self, r: &EventRecord, m: &MEvent) -> Option<String> {
        let tx = &self.model.txs[m.tx];
        macro_rules! chk {
            ($a:expr, $b:expr, $n:expr) => {
                if $a != $b {
                    return Some(format!("field {} differs: got {:?}, stored {:?}", $n, $a, $b));
                }
            };
        }
        chk!(r.event_id, m.event_id, "event_id");
        chk!(r.partition_key, m.partition_key, "partition_key");
        chk!(r.partition_id, m.partition_id, "partition_id");
        chk!(r.transaction_id, tx.id, "transaction_id");
        chk!(r.partition_sequence, m.seq, "partition_sequence");
        chk!(r.stream_version, m.version, "stream_version");
        chk!(r.timestamp, m.timestamp, "timestamp");
        chk!(&*r.stream_id, m.stream_id.as_str(), "stream_id");
        chk!(r.event_name, m.name, "event_name");
        if r.metadata != m.metadata {
            return Some(format!("metadata differs ({} vs {} bytes)", r.metadata.len(), m.metadata.len()));
        }
        if r.payload != m.payload {
            return Some(format!("payload differs ({} vs {} bytes)", r.payload.len(), m.payload.len()));
        }
        chk!(r.confirmation_count, tx.confirmation, "confirmation_count");
        None
    }

    /// A group returned by a read API must consist of events of exactly one committed model
    /// transaction, in order, contiguous within that transaction after the optional stream
    /// filter. Returns the model indices, or the C04/C03 problem.
    pub fn check_group(&self, g: &CommittedEvents, stream_filter: Option<&str>) -> Result<Vec<usize>, (&'static str, String, String)> {
        let evs: Vec<&EventRecord> = match g {
            CommittedEvents::Single(e) => vec![e],
            CommittedEvents::Transaction { events, .. } => events.iter().collect(),
        };
        if evs.is_empty() {
            return Err(("C04", "group/empty".into(), "a read returned an empty transaction group".into()));
        }
        let mut idxs = Vec::new();
        for e in &evs {
            let Some(i) = self.model.by_id.get(&e.event_id) else {
                return Err(("C04", "group/uncommitted-event".into(), format!("a read returned event {} (stream {}, sequence {}) which belongs to no committed transaction", e.event_id, &*e.stream_id, e.partition_sequence)));
            };
            if let Some(d) = self.cmp_event(e, &self.model.events[*i]) {
                return Err(("C03", "group/content".into(), format!("event {} returned with different content: {d}", e.event_id)));
            }
            idxs.push(*i);
        }
        let tx = self.model.events[idxs[0]].tx;
        if idxs.iter().any(|i| self.model.events[*i].tx != tx) {
            return Err(("C04", "group/mixes-transactions".into(), "one returned group holds events of two transactions".into()));
        }
        // must be a suffix (after filter) of the transaction's event list
        let full: Vec<usize> = self.model.txs[tx].events.iter().copied().filter(|i| stream_filter.map(|s| self.model.events[*i].stream_id == s).unwrap_or(true)).collect();
        if idxs.len() > full.len() || full[full.len() - idxs.len()..] != idxs[..] {
            return Err(("C04", "group/not-a-suffix".into(), format!("a returned group holds {} event(s) of a transaction whose {} matching event(s) are {:?}; got {:?} (siblings missing or out of order)", idxs.len(), full.len(), full.iter().map(|i| self.model.events[*i].seq).collect::<Vec<_>>(), idxs.iter().map(|i| self.model.events[*i].seq).collect::<Vec<_>>())));
        }
        match g {
            CommittedEvents::Single(_) => {
                if self.model.txs[tx].events.len() != 1 {
                    return Err(("C04", "group/single-for-multi".into(), "an event of a multi-event transaction was returned as a single committed event".into()));
                }
            }
            CommittedEvents::Transaction { commit, .. } => {
                if commit.transaction_id != self.model.txs[tx].id || commit.event_count as usize != self.model.txs[tx].events.len() {
                    return Err(("C04", "group/commit-mismatch".into(), format!("commit record says tx {} with {} events, model has tx {} with {}", commit.transaction_id, commit.event_count, self.model.txs[tx].id, self.model.txs[tx].events.len())));
                }
            }
        }
        Ok(idxs)
    }

    pub async fn collect_stream(&self, pid: u16, sid: &str, from: u64, dir: IterDirection, batch: usize) -> Result<Vec<CommittedEvents>, String> {
        let mut it = self.db().read_stream(pid, StreamId::new(sid).unwrap(), from, dir).await.map_err(|e| format!("read_stream failed: {e}"))?;
        let mut out = Vec::new();
        let mut guard = 0;
        loop {
            match it.next_batch(batch).await {
                Ok(Some(b)) => {
                    if b.is_empty() {
                        return Err("next_batch returned an empty batch".into());
                    }
                    out.extend(b)
                }
                Ok(None) => break,
                Err(e) => return Err(format!("next_batch failed after {} groups: {e}", out.len())),
            }
            guard += 1;
            if guard > 100_000 {
                return Err("scan does not terminate (100000 batches)".into());
            }
        }
        Ok(out)
    }

    pub async fn collect_partition(&self, pid: u16, from: u64, dir: IterDirection, batch: usize) -> Result<Vec<CommittedEvents>, String> {
        let mut it = self.db().read_partition(pid, from, dir).await.map_err(|e| format!("read_partition failed: {e}"))?;
        let mut out = Vec::new();
        let mut guard = 0;
        loop {
            match it.next_batch(batch).await {
                Ok(Some(b)) => {
                    if b.is_empty() {
                        return Err("next_batch returned an empty batch".into());
                    }
                    out.extend(b)
                }
                Ok(None) => break,
                Err(e) => return Err(format!("next_batch failed after {} groups: {e}", out.len())),
            }
            guard += 1;
            if guard > 100_000 {
                return Err("scan does not terminate (100000 batches)".into());
            }
        }
        Ok(out)
    }

    /// Scan oracle. `expected` = model events of the scanned object in position order; `pos_of`
    /// gives the position (version or sequence) of a model event.
    pub fn judge_scan(&mut self, what: &str, groups: &Result<Vec<CommittedEvents>, String>, expected: &[usize], from: u64, reverse: bool, filter: Option<&str>, is_stream: bool) -> bool {
        let pos = |m: &MEvent| if is_stream { m.version } else { m.seq };
        let groups = match groups {
            Ok(g) => g,
            Err(e) => {
                self.fail("C03", &format!("{what}/error"), format!("{what} from {from} ({}) failed: {e}", if reverse { "reverse" } else { "forward" }));
                return false;
            }
        };
        let mut all: Vec<Vec<usize>> = Vec::new();
        for g in groups {
            match self.check_group(g, filter) {
                Ok(idxs) => all.push(idxs),
                Err((prop, sig, msg)) => {
                    self.fail(prop, &format!("{what}/{sig}"), format!("{what} from {from}: {msg}"));
                    return false;
                }
            }
        }
        let exp_pos: Vec<u64> = expected.iter().map(|i| pos(&self.model.events[*i])).collect();
        if !reverse {
            let want: Vec<usize> = expected.iter().copied().filter(|i| pos(&self.model.events[*i]) >= from).collect();
            let got: Vec<usize> = all.iter().flatten().copied().collect();
            if got != want {
                let gp: Vec<u64> = got.iter().map(|i| pos(&self.model.events[*i])).collect();
                let wp: Vec<u64> = want.iter().map(|i| pos(&self.model.events[*i])).collect();
                let sig = if gp.len() < wp.len() && wp.starts_with(&gp) {
                    "forward/ends-early"
                } else if gp.windows(2).any(|w| w[1] <= w[0]) {
                    "forward/not-increasing"
                } else if gp.first().map(|p| *p < from).unwrap_or(false) {
                    "forward/before-start"
                } else {
                    "forward/wrong-set"
                };
                self.fail("C03", &format!("{what}/{sig}"), format!("{what} forward from {from}: got positions {gp:?}, stored positions at or after the start are {wp:?}"));
                return false;
            }
        } else {
            // every stored event at or before `from` appears; groups are tx suffixes whose first
            // event is at or before `from`; first positions strictly decrease
            let mut covered = std::collections::BTreeSet::new();
            let mut last_first: Option<u64> = None;
            for g in &all {
                let first = pos(&self.model.events[g[0]]);
                if first > from {
                    self.fail("C03", &format!("{what}/reverse/starts-above-position"), format!("{what} reverse from {from}: a group starts at position {first}, above the start position (stored positions {exp_pos:?})"));
                    return false;
                }
                if let Some(lf) = last_first {
                    if first >= lf {
                        self.fail("C03", &format!("{what}/reverse/not-decreasing"), format!("{what} reverse from {from}: group starting at {first} follows a group starting at {lf}"));
                        return false;
                    }
                }
                last_first = Some(first);
                for i in g {
                    covered.insert(*i);
                }
            }
            for i in expected {
                let p = pos(&self.model.events[*i]);
                if p <= from && !covered.contains(i) {
                    let gp: Vec<Vec<u64>> = all.iter().map(|g| g.iter().map(|i| pos(&self.model.events[*i])).collect()).collect();
                    self.fail("C03", &format!("{what}/reverse/missing"), format!("{what} reverse from {from}: stored position {p} was not returned; groups {gp:?}, stored positions {exp_pos:?}"));
                    return false;
                }
            }
        }
        true
    }

    fn resolve_pos(p: &Pos, positions: &[u64]) -> u64 {
        match p {
            Pos::Zero => 0,
            Pos::Exact(i) => {
                if positions.is_empty() {
                    0
                } else {
                    positions[*i as usize % positions.len()]
                }
            }
            Pos::End => positions.last().copied().unwrap_or(0),
            Pos::Beyond(k) => positions.last().map(|l| l + 1 + *k as u64).unwrap_or(1 + *k as u64),
            Pos::Max => u64::MAX,
        }
    }

    // ---------------------------------------------------------------- oracles per op

    /// C01: immediately after the acknowledgement.
    pub async fn c01_after_ack(&mut self, tx: &TxInput, r: &AppendResult, tx_idx: usize) {
        let bucket = self.cfg.bucket_of(tx.partition_id);
        // (i) fsync ledger: snapshot what is durable *first*, then find the record's file
        let snapshot: Vec<(PathBuf, Option<u64>)> = self
            .segment_files(bucket)
            .into_iter()
            .map(|(_, p)| {
                let d = std::fs::metadata(&p).ok().and_then(|m| seglog::verif::durable_len(m.dev(), m.ino()));
                (p, d)
            })
            .collect();
        let last = *r.offsets.last().unwrap();
        match self.record_len_at(bucket, last, &tx.events.last().unwrap().event_id) {
            None => {
                self.fail("C01", "ack/record-not-at-returned-offset", format!("no segment file of bucket {bucket} holds the acknowledged event {} at its returned offset {last}", tx.events.last().unwrap().event_id));
                return;
            }
            Some((path, len)) => {
                let end = last + len as u64 + if tx.events.len() > 1 { 37 } else { 0 };
                let durable = snapshot.iter().find(|(p, _)| *p == path).and_then(|(_, d)| *d);
                if durable.map(|d| d < end).unwrap_or(true) {
                    self.fail("C01", "ack/before-fsync", format!("append acknowledged while the segment file was only fsynced up to {:?} but the transaction ends at {end} (segment {})", durable, path.parent().and_then(|p| p.file_name()).map(|s| s.to_string_lossy().to_string()).unwrap_or_default()));
                    return;
                }
            }
        }
        // (ii) every event is readable right now
        self.c01_tx_readable(tx_idx, "immediately").await;
    }

    /// Every event of model transaction `tx_idx` is returned with identical content by event
    /// lookup, transaction lookup, stream scan from its version and partition scan from its sequence.
    pub async fn c01_tx_readable(&mut self, tx_idx: usize, when: &str) {
        let evs: Vec<MEvent> = self.model.tx_events(tx_idx).into_iter().cloned().collect();
        let pid = self.model.txs[tx_idx].partition_id;
        for m in &evs {
            self.stats.reads += 1;
            match self.db().read_event(pid, m.event_id).await {
                Ok(Some(r)) => {
                    if let Some(d) = self.cmp_event(&r, m) {
                        self.fail("C01", &format!("{when}/event-lookup-content"), format!("event lookup of acknowledged event {} ({when}): {d}", m.event_id));
                        return;
                    }
                }
                Ok(None) => {
                    self.fail("C01", &format!("{when}/event-lookup-missing"), format!("event lookup of acknowledged event {} (partition {pid}, sequence {}) returned nothing ({when})", m.event_id, m.seq));
                    return;
                }
                Err(e) => {
                    self.fail("C01", &format!("{when}/event-lookup-error"), format!("event lookup of acknowledged event {} (sequence {}) failed ({when}): {e}", m.event_id, m.seq));
                    return;
                }
            }
        }
        // transaction lookup by first id
        match self.db().read_transaction(pid, evs[0].event_id).await {
            Ok(Some(g)) => {
                let n = g.len();
                let ids: Vec<Uuid> = g.into_iter().map(|e| e.event_id).collect();
                if ids != evs.iter().map(|e| e.event_id).collect::<Vec<_>>() {
                    self.fail("C01", &format!("{when}/transaction-lookup-differs"), format!("transaction lookup returned {n} event(s), the acknowledged transaction has {} ({when})", evs.len()));
                    return;
                }
            }
            Ok(None) => {
                self.fail("C01", &format!("{when}/transaction-lookup-missing"), format!("transaction lookup by first event id returned nothing ({when})"));
                return;
            }
            Err(e) => {
                self.fail("C01", &format!("{when}/transaction-lookup-error"), format!("transaction lookup failed ({when}): {e}"));
                return;
            }
        }
        // stream scan from its version, partition scan from its sequence
        for m in &evs {
            let groups = self.collect_stream(pid, &m.stream_id, m.version, IterDirection::Forward, 7).await;
            match groups {
                Ok(gs) => {
                    let found = gs.iter().flat_map(|g| g.clone().into_iter()).find(|e| e.event_id == m.event_id);
                    match found {
                        Some(r) => {
                            if let Some(d) = self.cmp_event(&r, m) {
                                self.fail("C01", &format!("{when}/stream-scan-content"), format!("stream scan ({when}): {d}"));
                                return;
                            }
                        }
                        None => {
                            self.fail("C01", &format!("{when}/stream-scan-missing"), format!("stream scan of {:?} from version {} does not return acknowledged event {} ({when}); returned versions {:?}", m.stream_id, m.version, m.event_id, gs.iter().flat_map(|g| g.clone().into_iter()).map(|e| e.stream_version).collect::<Vec<_>>()));
                            return;
                        }
                    }
                }
                Err(e) => {
                    self.fail("C01", &format!("{when}/stream-scan-error"), format!("stream scan of {:?} from {} failed ({when}): {e}", m.stream_id, m.version));
                    return;
                }
            }
        }
        let first_seq = evs[0].seq;
        match self.collect_partition(pid, first_seq, IterDirection::Forward, 7).await {
            Ok(gs) => {
                let got: Vec<Uuid> = gs.iter().flat_map(|g| g.clone().into_iter()).map(|e| e.event_id).collect();
                for m in &evs {
                    if !got.contains(&m.event_id) {
                        self.fail("C01", &format!("{when}/partition-scan-missing"), format!("partition scan of {pid} from sequence {first_seq} does not return acknowledged event at sequence {} ({when})", m.seq));
                        return;
                    }
                }
            }
            Err(e) => {
                self.fail("C01", &format!("{when}/partition-scan-error"), format!("partition scan of {pid} from {first_seq} failed ({when}): {e}"));
            }
        }
    }

    /// C02: latest-version and latest-sequence queries for everything the model knows (and some
    /// it does not).
    pub async fn c02_versions(&mut self, only: Option<&TxInput>) {
        let mut streams: Vec<(u16, String)> = Vec::new();
        let mut parts: Vec<u16> = Vec::new();
        match only {
            Some(tx) => {
                for e in &tx.events {
                    streams.push((tx.partition_id, e.stream_id.to_string()));
                }
                parts.push(tx.partition_id);
            }
            None => {
                for p in 0..self.cfg.partitions {
                    parts.push(p);
                    for s in 0..N_STREAMS {
                        streams.push((p, stream_name(s)));
                    }
                }
            }
        }
        streams.sort();
        streams.dedup();
        for (pid, sid) in streams {
            let want = self.model.stream_version(pid, &sid);
            self.stats.reads += 1;
            match self.db().get_stream_version(pid, &StreamId::new(sid.clone()).unwrap()).await {
                Ok(got) => {
                    let got = got.map(|g| (g.partition_key, g.version));
                    if got != want {
                        self.fail("C02", "query/stream-version", format!("get_stream_version({pid}, {sid:?}) = {got:?}, model says {want:?}"));
                        return;
                    }
                }
                Err(e) => {
                    self.fail("C02", "query/stream-version-error", format!("get_stream_version({pid}, {sid:?}) failed: {e}"));
                    return;
                }
            }
        }
        for pid in parts {
            let want = self.model.partition_sequence(pid);
            match self.db().get_partition_sequence(pid).await {
                Ok(got) => {
                    let got = got.map(|g| g.sequence);
                    if got != want {
                        self.fail("C02", "query/partition-sequence", format!("get_partition_sequence({pid}) = {got:?}, model says {want:?}"));
                        return;
                    }
                }
                Err(e) => {
                    self.fail("C02", "query/partition-sequence-error", format!("get_partition_sequence({pid}) failed: {e}"));
                    return;
                }
            }
        }
    }

    pub async fn do_append(&mut self, g: &TxGen) {
        let tx = self.concretize(g);
        self.note_tx_classes(&tx);
        self.rendered.push(json!({"append": Self::render_tx(&tx)}));
        let res = self.db().append_events(Self::to_transaction(&tx)).await;
        let li = self.rendered.len() - 1;
        self.rendered[li]["result"] = json!(match &res { Ok(r) => format!("ok seq {}..={}", r.first_partition_sequence, r.last_partition_sequence), Err(e) => format!("err: {e}") });
        let idx = self.settle_append(&tx, &res);
        if self.stopped {
            return;
        }
        if let (Some(idx), Ok(r)) = (idx, &res) {
            self.track_layout(&tx, r);
            if self.on("C01") {
                self.c01_after_ack(&tx, r, idx).await;
            }
        }
        if self.on("C02") && !self.stopped {
            self.c02_versions(Some(&tx)).await;
        }
    }

    pub async fn do_batch(&mut self, gs: &[TxGen]) {
        // Transactions are submitted in list order from one task: the writer thread of a bucket
        // receives them in that order, so later ones are validated against earlier ones while
        // those are still unsynced. Across buckets the order is irrelevant to the model.
        let mut txs = Vec::new();
        let mut model = self.model.clone();
        // concretize sequentially against a scratch copy of the model so that "Right"
        // expectations refer to the state each transaction will see
        for g in gs {
            let saved = std::mem::replace(&mut self.model, model);
            let tx = self.concretize(g);
            model = std::mem::replace(&mut self.model, saved);
            if let Ok(acc) = model.decide(&tx, self.cfg.segment_size) {
                model.apply(&tx, &acc);
            }
            txs.push(tx);
        }
        self.rendered.push(json!({"batch": txs.iter().map(Self::render_tx).collect::<Vec<_>>()}));
        let futs: Vec<_> = txs.iter().map(|tx| self.db().append_events(Self::to_transaction(tx))).collect();
        let results = futures::future::join_all(futs).await;
        let li = self.rendered.len() - 1;
        self.rendered[li]["results"] = json!(results.iter().map(|r| match r { Ok(r) => format!("ok {}..={}", r.first_partition_sequence, r.last_partition_sequence), Err(e) => format!("err: {e}") }).collect::<Vec<_>>());
        let mut acked = Vec::new();
        for (tx, res) in txs.iter().zip(results.iter()) {
            self.note_tx_classes(tx);
            let idx = self.settle_append(tx, res);
            if self.stopped {
                return;
            }
            if let (Some(idx), Ok(r)) = (idx, res) {
                self.track_layout(tx, r);
                acked.push((tx.clone(), r.clone(), idx));
            }
        }
        if self.on("C01") {
            for (tx, r, idx) in &acked {
                self.c01_after_ack(tx, r, *idx).await;
                if self.stopped {
                    return;
                }
            }
        }
        if self.on("C02") {
            for tx in &txs {
                self.c02_versions(Some(tx)).await;
                if self.stopped {
                    return;
                }
            }
        }
    }

    async fn do_boundary(&mut self, delta: i64, kind: u8, seed: u32, stream: u8, multi: bool) {
        // an append whose *estimated* size lands `delta` bytes around the free space of the
        // live segment of its bucket
        let key_idx = stream % N_KEYS;
        let (_, pid) = self.key_for(key_idx);
        let bucket = self.cfg.bucket_of(pid);
        let end = self.live_end.get(&bucket).copied().unwrap_or(SEGMENT_HEADER_SIZE as u64);
        let free = self.cfg.segment_size as i64 - end as i64;
        let sid = stream_name(stream);
        let fixed = 93 + sid.len() + 1 + if multi { 93 + sid.len() + 1 + 37 } else { 0 };
        let target = free + delta;
        if target <= fixed as i64 + 8 {
            return;
        }
        let payload_len = (target as usize - fixed).min(self.cfg.segment_size);
        let mut events = vec![EvGen { stream, expect: ExpectKind::Any, payload_len, payload_kind: kind, seed, meta_len: 0, name_len: 1, ts: 0 }];
        if multi {
            events.push(EvGen { stream, expect: ExpectKind::Any, payload_len: 0, payload_kind: 0, seed, meta_len: 0, name_len: 1, ts: 0 });
        }
        let g = TxGen { key_override: None, events, seq_expect: ExpectKind::Any, confirmation: 0 };
        let tx = self.concretize(&g);
        let est = estimated_size(&tx.events);
        self.stats.boundary_appends += 1;
        let content_name = ["zeros", "text", "random", "random with one short run (barely compressible)"][kind as usize % 4];
        self.rendered.push(json!({"boundary_append": {"free": free, "estimated": est, "delta": delta, "content": content_name, "compression": self.cfg.compression, "events": tx.events.len()}}));
        let res = self.db().append_events(Self::to_transaction(&tx)).await;
        let li = self.rendered.len() - 1;
        self.rendered[li]["result"] = json!(match &res { Ok(r) => format!("ok at offset {}", r.offsets[0]), Err(e) => format!("err: {e}") });
        if est + SEGMENT_HEADER_SIZE <= self.cfg.segment_size {
            if let Err(e) = &res {
                if e.to_string().contains("segment full") {
                    // retried with no other traffic: must not fail forever
                    let mut last = e.to_string();
                    let mut ok = false;
                    for _ in 0..3 {
                        match self.db().append_events(Self::to_transaction(&tx)).await {
                            Ok(r) => {
                                ok = true;
                                let idx = self.settle_append(&tx, &Ok(r.clone()));
                                if let Some(_) = idx {
                                    self.track_layout(&tx, &r);
                                }
                                break;
                            }
                            Err(e) => last = e.to_string(),
                        }
                    }
                    if self.on("C19") {
                        let sig = if ok { "boundary/segment-full-then-ok" } else { "boundary/segment-full-forever" };
                        self.fail("C19", sig, format!("transaction with estimated size {est} (segment {} bytes, {free} bytes free in the live segment, compression {}, payload content {}) was rejected for lack of space: {last}{}", self.cfg.segment_size, self.cfg.compression, content_name, if ok { " (a retry succeeded)" } else { "; three retries failed identically" }));
                    } else {
                        self.fail("C19", "boundary/segment-full", "space".into());
                    }
                    return;
                }
            }
        }
        let idx = self.settle_append(&tx, &res);
        if self.stopped {
            return;
        }
        if let (Some(idx), Ok(r)) = (idx, &res) {
            if (delta.unsigned_abs() as usize) < 64 {
                self.stats.boundary_between += 1;
            }
            self.track_layout(&tx, r);
            if self.on("C01") {
                self.c01_after_ack(&tx, r, idx).await;
            }
        }
    }

    pub async fn do_read_event(&mut self, pick: u16, unknown: bool) {
        if !(self.on("C01") || self.on("C04") || self.on("C03")) {
            return;
        }
        self.stats.reads += 1;
        if unknown || self.model.events.is_empty() {
            let (_, pid) = self.key_for((pick % N_KEYS as u16) as u8);
            let id = make_id(key_hash(pick % N_KEYS as u16, self.cfg.partitions), 0xFFFF_0000 + pick as u64, 9);
            self.rendered.push(json!({"read_event": "unknown id"}));
            match self.db().read_event(pid, id).await {
                Ok(None) => {}
                Ok(Some(e)) => self.fail("C04", "event-lookup/invented", format!("lookup of an id that was never appended returned event {} at sequence {}", e.event_id, e.partition_sequence)),
                Err(e) => self.fail("C01", "event-lookup/error-unknown-id", format!("lookup of an unknown id failed: {e}")),
            }
            return;
        }
        let i = pick as usize % self.model.events.len();
        let m = self.model.events[i].clone();
        self.rendered.push(json!({"read_event": {"partition": m.partition_id, "seq": m.seq}}));
        match self.db().read_event(m.partition_id, m.event_id).await {
            Ok(Some(r)) => {
                if let Some(d) = self.cmp_event(&r, &m) {
                    self.fail("C01", "later/event-lookup-content", format!("event lookup of {}: {d}", m.event_id));
                }
            }
            Ok(None) => self.fail("C01", "later/event-lookup-missing", format!("event lookup of acknowledged event {} (partition {}, sequence {}) returned nothing", m.event_id, m.partition_id, m.seq)),
            Err(e) => self.fail("C01", "later/event-lookup-error", format!("event lookup of acknowledged event {} (partition {}, sequence {}) failed: {e}", m.event_id, m.partition_id, m.seq)),
        }
    }

    async fn do_read_tx(&mut self, pick: u16) {
        if !(self.on("C04") || self.on("C01")) || self.model.txs.is_empty() {
            return;
        }
        self.stats.reads += 1;
        let t = pick as usize % self.model.txs.len();
        let first = self.model.events[self.model.txs[t].events[0]].clone();
        self.rendered.push(json!({"read_transaction": {"partition": first.partition_id, "first_seq": first.seq, "events": self.model.txs[t].events.len()}}));
        match self.db().read_transaction(first.partition_id, first.event_id).await {
            Ok(Some(g)) => match self.check_group(&g, None) {
                Ok(idxs) => {
                    if idxs != self.model.txs[t].events {
                        self.fail("C04", "transaction-lookup/partial", format!("transaction lookup by first event id returned {} of {} events", idxs.len(), self.model.txs[t].events.len()));
                    }
                }
                Err((prop, sig, msg)) => self.fail(prop, &format!("transaction-lookup/{sig}"), msg),
            },
            Ok(None) => self.fail("C01", "later/transaction-lookup-missing", format!("transaction lookup for acknowledged transaction at sequence {} returned nothing", first.seq)),
            Err(e) => self.fail("C01", "later/transaction-lookup-error", format!("transaction lookup failed: {e}")),
        }
    }

    async fn do_scan_stream(&mut self, stream: u8, from: &Pos, reverse: bool, batch: u8) {
        if !(self.on("C03") || self.on("C04")) {
            return;
        }
        let sid = stream_name(stream);
        // pick the partition where the stream lives (or its home partition)
        let home = self.key_for(stream % N_KEYS).1;
        let mut pid = home;
        for p in 0..self.cfg.partitions {
            if let Some(s) = self.model.stream(p, &sid) {
                if self.model.events[s.events[0]].partition_id == p {
                    pid = p;
                    if p == home {
                        break;
                    }
                }
            }
        }
        let expected: Vec<usize> = self.model.stream(pid, &sid).map(|s| s.events.clone()).unwrap_or_default();
        let positions: Vec<u64> = expected.iter().map(|i| self.model.events[*i].version).collect();
        let from_v = Self::resolve_pos(from, &positions);
        let dir = if reverse { IterDirection::Reverse } else { IterDirection::Forward };
        self.rendered.push(json!({"scan_stream": {"stream": sid, "partition": pid, "from": from_v, "reverse": reverse, "batch": batch, "stored": positions.len()}}));
        let groups = self.collect_stream(pid, &sid, from_v, dir, batch as usize).await;
        self.stats.scans += 1;
        let ok = self.judge_scan("stream-scan", &groups, &expected, from_v, reverse, Some(&sid), true);
        if ok {
            self.note_scan_class(&expected, from_v, true);
        }
    }

    async fn do_scan_partition(&mut self, part: u8, from: &Pos, reverse: bool, batch: u8) {
        if !(self.on("C03") || self.on("C04")) {
            return;
        }
        let pid = part as u16 % self.cfg.partitions;
        let expected: Vec<usize> = self.model.partitions.get(&pid).cloned().unwrap_or_default();
        let positions: Vec<u64> = expected.iter().map(|i| self.model.events[*i].seq).collect();
        let from_s = Self::resolve_pos(from, &positions);
        let dir = if reverse { IterDirection::Reverse } else { IterDirection::Forward };
        self.rendered.push(json!({"scan_partition": {"partition": pid, "from": from_s, "reverse": reverse, "batch": batch, "stored": positions.len()}}));
        let groups = self.collect_partition(pid, from_s, dir, batch as usize).await;
        self.stats.scans += 1;
        let ok = self.judge_scan("partition-scan", &groups, &expected, from_s, reverse, None, false);
        if ok {
            self.note_scan_class(&expected, from_s, false);
        }
    }

    fn note_scan_class(&mut self, expected: &[usize], from: u64, is_stream: bool) {
        if expected.is_empty() {
            return;
        }
        let pos = |m: &MEvent| if is_stream { m.version } else { m.seq };
        let last = pos(&self.model.events[*expected.last().unwrap()]);
        let multi_interleaved = expected.iter().any(|i| {
            let tx = &self.model.txs[self.model.events[*i].tx];
            tx.events.len() > 1 && {
                let mut s = std::collections::HashSet::new();
                for e in &tx.events {
                    s.insert(self.model.events[*e].stream_id.as_str());
                }
                s.len() >= 2
            }
        });
        if self.stats.rollovers > 0 && multi_interleaved && from != 0 && from <= last {
            self.stats.scans_nontrivial += 1;
        }
    }

    /// Full audit: every event by id, every stream and partition forward from 0, versions.
    pub async fn audit(&mut self, when: &str) {
        if self.on("C01") {
            for t in 0..self.model.txs.len() {
                self.c01_tx_readable(t, when).await;
                if self.stopped {
                    return;
                }
            }
        }
        if self.on("C02") {
            self.c02_versions(None).await;
            if self.stopped {
                return;
            }
        }
        if self.on("C03") || self.on("C04") {
            let keys: Vec<(u16, String)> = self.model.streams.keys().cloned().collect();
            for (bucket, sid) in keys {
                let s = self.model.streams[&(bucket, sid.clone())].clone();
                let pid = self.model.events[s.events[0]].partition_id;
                for reverse in [false, true] {
                    let from = if reverse { u64::MAX } else { 0 };
                    let dir = if reverse { IterDirection::Reverse } else { IterDirection::Forward };
                    let groups = self.collect_stream(pid, &sid, from, dir, 13).await;
                    self.stats.scans += 1;
                    if !self.judge_scan(&format!("stream-scan-{when}"), &groups, &s.events, from, reverse, Some(&sid), true) {
                        return;
                    }
                }
            }
            let parts: Vec<u16> = self.model.partitions.keys().copied().collect();
            for pid in parts {
                let evs = self.model.partitions[&pid].clone();
                for reverse in [false, true] {
                    let from = if reverse { u64::MAX } else { 0 };
                    let dir = if reverse { IterDirection::Reverse } else { IterDirection::Forward };
                    let groups = self.collect_partition(pid, from, dir, 13).await;
                    self.stats.scans += 1;
                    if !self.judge_scan(&format!("partition-scan-{when}"), &groups, &evs, from, reverse, None, false) {
                        return;
                    }
                }
            }
        }
    }

    pub async fn reopen(&mut self) {
        self.rendered.push(json!("reopen"));
        let mut snapshot: Option<vlib::Scratch> = None;
        if let Some(db) = self.db.take() {
            db.shutdown().await;
            if self.exit_snapshot {
                // what a process that exits as soon as shutdown() returns leaves on disk: index
                // files first (they are what background jobs may still be writing)
                let snap = vlib::Scratch::new("exit-snap");
                let _ = copy_dir_filtered(&self.dir, snap.path(), true);
                let _ = copy_dir_filtered(&self.dir, snap.path(), false);
                snapshot = Some(snap);
            }
            drop(db);
        }
        if let Some(snap) = snapshot {
            self.rendered.push(json!("(state at the return of shutdown() opened separately)"));
            match self.cfg.open(snap.path()) {
                Ok(db) => {
                    self.db = Some(db);
                    self.audit("exit-at-shutdown-return").await;
                    if let Some(db) = self.db.take() {
                        db.shutdown().await;
                    }
                    self.stats.exit_snapshots += 1;
                    if self.stopped {
                        return;
                    }
                }
                Err(e) => {
                    let msg = format!("{e}");
                    if vlib::is_resource_exhaustion(&msg) {
                        self.out.class("inconclusive-resource-exhaustion");
                        self.stopped = true;
                        return;
                    }
                    self.fail("C01", "exit-at-shutdown-return/open-failed", format!("the directory as it is when Database::shutdown() returns (a process may exit then) does not open: {msg}"));
                    return;
                }
            }
        }
        if !self.open() {
            return;
        }
        self.stats.reopens += 1;
        self.epoch += 1;
        if self.pending_interesting {
            self.stats.reopen_after_interesting = true;
        }
        self.audit("after-reopen").await;
    }

    pub async fn run(&mut self, ops: &[Op]) {
        for op in ops {
            if self.stopped {
                break;
            }
            match op {
                Op::Append(g) => self.do_append(g).await,
                Op::Batch(gs) => self.do_batch(gs).await,
                Op::Boundary { delta, kind, seed, stream, multi } => self.do_boundary(*delta, *kind, *seed, *stream, *multi).await,
                Op::ReadEvent { pick, unknown } => self.do_read_event(*pick, *unknown).await,
                Op::ReadTx { pick } => self.do_read_tx(*pick).await,
                Op::ScanStream { stream, from, reverse, batch } => self.do_scan_stream(*stream, from, *reverse, *batch).await,
                Op::ScanPartition { part, from, reverse, batch } => self.do_scan_partition(*part, from, *reverse, *batch).await,
                Op::Versions => {
                    if self.on("C02") {
                        self.rendered.push(json!("versions"));
                        self.c02_versions(None).await
                    }
                }
                Op::Reopen => self.reopen().await,
            }
        }
        if !self.stopped {
            self.audit("final").await;
        }
        for (s, _) in &self.stream_accepted {
            if self.stream_rejected.contains_key(s) {
                self.stats.same_stream_accept_and_reject = true;
            }
        }
    }

    pub async fn close(&mut self) {
        if let Some(db) = self.db.take() {
            db.shutdown().await;
            drop(db);
        }
    }
}

pub fn cfg_json(cfg: &DbCfg) -> Value {
    json!({"segment": cfg.segment_size, "compression": cfg.compression, "buckets": cfg.buckets, "writers": cfg.writer_threads, "partitions": cfg.partitions, "sync_ms": cfg.sync_interval_ms, "idle_ms": cfg.sync_idle_ms, "max_batch": cfg.max_batch, "min_sync_bytes": if cfg.min_sync_bytes > 1 << 40 { -1 } else { cfg.min_sync_bytes as i64 }})
}

pub fn unused(_: &Accept, _: &Reject) {}
