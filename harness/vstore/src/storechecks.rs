//! C01, C02, C03, C19 (and the history part of C04): one interpreter, one check object per property.

use serde_json::json;
use vlib::{CaseOut, Check, Env, Plan, Scratch, Tape, Tier};

use crate::dbx::{DbCfg, block_on};
use crate::store::{GenWeights, Interp, cfg_json, gen_ops};

pub struct StoreCheck {
    pub id: &'static str,
}

pub const C01: StoreCheck = StoreCheck { id: "C01" };
pub const C02: StoreCheck = StoreCheck { id: "C02" };
pub const C03: StoreCheck = StoreCheck { id: "C03" };
pub const C19: StoreCheck = StoreCheck { id: "C19" };

impl StoreCheck {
    fn weights(&self) -> GenWeights {
        let mut w = GenWeights::base();
        match self.id {
            "C01" => {
                w.big_payload = 9;
                w.bad_input = 3;
                w.reopen = 2;
                w.scan_stream = 1;
                w.scan_partition = 1;
            }
            "C02" => {
                w.versions = 3;
                w.wrong = 3;
                w.batch = 5;
                w.scan_stream = 0;
                w.scan_partition = 0;
                w.read_event = 0;
                w.read_tx = 0;
                w.big_payload = 5;
            }
            "C03" => {
                w.scan_stream = 8;
                w.scan_partition = 8;
                w.big_payload = 10;
                w.multi = 8;
                w.bad_input = 1;
            }
            "C19" => {
                w.boundary = 10;
                w.append = 6;
                w.batch = 1;
                w.big_payload = 6;
                w.scan_stream = 0;
                w.scan_partition = 0;
                w.read_event = 0;
                w.read_tx = 0;
                w.versions = 0;
                w.bad_input = 0;
            }
            _ => {}
        }
        w
    }
}

impl Check for StoreCheck {
    fn id(&self) -> &'static str {
        self.id
    }
    fn level(&self) -> &'static str {
        "exploration"
    }
    fn rule(&self) -> String {
        let common = "case = database configuration (segment 128 KiB..1 MiB, compression on/off, 1-4 buckets, writer threads dividing the buckets, 1-3 partitions per bucket, sync interval 0/1/2/5 ms, batch and min-sync-bytes from 1 to huge) + 3-40 model-relative operations: single appends, batches of 2-4 concurrently submitted appends (validated against unsynced predecessors), event/transaction lookups, stream and partition scans (start 0 / existing / end / beyond / u64::MAX, both directions, batch 1-60), version queries, close+reopen. Events: 6 streams (1-byte, 64-byte, multi-byte UTF-8 ids) over 4 partition keys, expectations Any/Exists/Empty/Exact right and wrong and at u64 extremes, payloads 0 B..150 KiB in three compressibility classes, metadata, event names 0..265 bytes, timestamps 0 / 2^63-1 / >=2^63, expected partition sequences. Partition ids are derived from the key (hash % partitions) as every caller does. The reference model decides accept/reject and all read results. ";
        let specific = match self.id {
            "C01" => "C01 oracle: immediately after every Ok the fsync ledger (hook H1) must cover the transaction's last record, and event lookup, transaction lookup, stream scan from its version and partition scan from its sequence must return every event field-for-field; repeated for all acknowledged transactions after every reopen and at the end. Non-trivial: history with an acknowledged append after a rollover or after a multi-event append that failed behind its first event, followed by a reopen.",
            "C02" => "C02 oracle: accept/reject == model for every append; assigned sequences and per-stream versions == model; get_stream_version/get_partition_sequence == model for the touched objects after every append and for everything at Versions ops, after reopen and at the end. Non-trivial: history with a rejected and an accepted append on one stream, a transaction repeating a stream, an expected-partition-sequence append and a rollover or reopen between two appends to one stream.",
            "C03" => "C03 oracle: forward scans == model events at or after the start, each once, in order; reverse scans cover every model event at or before the start with groups that are in-order suffixes of one transaction starting at or before the start, first positions strictly decreasing; every returned event field-for-field; full forward and reverse audit of every stream and partition after each reopen and at the end. Non-trivial: a scan whose object contains a multi-event transaction over >= 2 streams, after at least one rollover, from a start that is neither 0 nor beyond the end.",
            "C19" => "C19: additionally BoundaryAppend operations whose *estimated* size lands exactly on / 1 / 2 / 8 / 37 / 93 bytes around the free space of the live segment, with zero / text / incompressible payloads. Oracle: a transaction whose estimated size + segment header fits an empty segment is never rejected for lack of space (a rejected one is retried three times). Non-trivial: a boundary append accepted or judged within 64 bytes of the free space.",
            _ => "",
        };
        format!("{common}{specific}")
    }
    fn assumptions(&self) -> Vec<String> {
        vec![
            "appends submitted from one task are delivered to a bucket's writer thread in submission order (tokio mpsc FIFO)".into(),
            "stream identity is per bucket (the implementation indexes streams per bucket): the model keeps one stream per (bucket, id)".into(),
            "which error an invalid append reports is not modelled, only accept/reject".into(),
            "the fsync ledger (hook H1) records what seglog::Writer fsynced; durability on real media below fsync is trusted".into(),
            "reverse scans may return, inside a group, events of the same transaction above the start position (a group is a transaction suffix)".into(),
        ]
    }
    fn plan(&self, tier: Tier) -> Plan {
        let quick = tier == Tier::Quick;
        Plan {
            cases: if quick { 1200 } else { 12000 },
            max_tape: 230,
            min_slots: 4,
            max_slots: 41,
            shard_cases: 8,
            shard_timeout_s: if quick { 240 } else { 900 },
            max_shrink_iters: 600,
            ..Plan::default()
        }
    }
    fn abort_is_violation(&self) -> bool {
        true
    }
    fn run_case(&self, t: &mut Tape, env: &Env) -> CaseOut {
        let mut out = CaseOut::default();
        let cfg = DbCfg::generate(t);
        let w = self.weights();
        let ops = gen_ops(t, &w);
        let scratch = Scratch::new("store");
        seglog::verif::reset();
        let focus = self.id;
        let (rendered, stats) = {
            let mut it = Interp::new(cfg.clone(), scratch.path(), focus, &mut out, env);
            // half of the cases (by a hash of the header slot, so that existing replays keep
            // their meaning) also judge the on-disk state at the return of shutdown(); there the
            // background index flushes are delayed through hook H6 so that "shutdown returned
            // before the sealed indexes were written" is decided, not raced
            let exit_snapshot = vlib::fnv1a(&t.slots().first().map(|s| s.iter().flat_map(|w| w.to_le_bytes()).collect::<Vec<u8>>()).unwrap_or_default()) % 2 == 0;
            it.exit_snapshot = exit_snapshot;
            if exit_snapshot {
                sierradb::verif::set_pause_handler(Some(std::sync::Arc::new(|point: &str| {
                    if point == "index-flush:start" {
                        std::thread::sleep(std::time::Duration::from_millis(40));
                    }
                })));
            }
            let before = vlib::peek_panics().len();
            let r = std::panic::catch_unwind(std::panic::AssertUnwindSafe(|| {
                block_on(async {
                    if it.open() {
                        it.run(&ops).await;
                    }
                    it.close().await;
                })
            }));
            if r.is_err() {
                let last = vlib::last_panic_since(before);
                let shape = last.as_ref().map(vlib::panic_shape).unwrap_or_default();
                let msg = last.map(|p| format!("panic at {}: {}", p.location, p.message)).unwrap_or_default();
                it.rendered.push(json!({"panicked": msg}));
                it.fail(focus, &format!("panic/{shape}"), format!("a database call panicked on the calling task: {msg}"));
            }
            sierradb::verif::set_pause_handler(None);
            (std::mem::take(&mut it.rendered), std::mem::take(&mut it.stats))
        };
        out.set_sample(json!({"config": cfg_json(&cfg), "ops": rendered}));
        out.count("appends_accepted", stats.accepted);
        out.count("appends_rejected", stats.rejected);
        out.count("rollovers", stats.rollovers);
        out.count("reopens", stats.reopens);
        out.count("states_at_shutdown_return_opened", stats.exit_snapshots);
        out.count("scans", stats.scans);
        out.count("reads", stats.reads);
        out.count("failed_multi_after_first_event", stats.failed_multi_after_first);
        out.count("boundary_appends", stats.boundary_appends);
        if stats.rollovers > 0 {
            out.class("rollover");
        }
        if stats.rollovers > 1 {
            out.class("rollover>=2");
        }
        if stats.reopens > 0 {
            out.class("reopen");
        }
        if stats.failed_multi_after_first > 0 {
            out.class("failed-multi-after-first");
        }
        if stats.tx_repeats_stream {
            out.class("tx-repeats-stream");
        }
        if cfg.compression {
            out.class("compression");
        }
        if cfg.buckets > 1 {
            out.class("multi-bucket");
        }
        if cfg.sync_interval_ms > 0 {
            out.class("timed-sync");
        }
        out.nontrivial = match self.id {
            "C01" => (stats.acked_after_rollover || stats.acked_after_failed_multi) && stats.reopen_after_interesting,
            "C02" => stats.same_stream_accept_and_reject && stats.tx_repeats_stream && stats.seq_expect_used && stats.stream_across_rollover_or_reopen,
            "C03" => stats.scans_nontrivial > 0,
            "C19" => stats.boundary_between > 0,
            _ => false,
        };
        out
    }
}
