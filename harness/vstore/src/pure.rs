//! C23 (identifier routing) and C25 (expected-version algebra).

use std::panic::{AssertUnwindSafe, catch_unwind};
use std::str::FromStr;

use serde_json::{Value, json};
use sierradb::StreamId;
use sierradb::database::{NewEvent, Transaction};
use sierradb::id::{
    extract_event_id_bucket, get_uuid_flag, partition_id_to_bucket, set_uuid_flag,
    uuid_to_partition_hash, uuid_v7_with_partition_hash, validate_event_id,
};
use sierradb_protocol::{CurrentVersion, ExpectedVersion, VersionGap};
use smallvec::smallvec;
use uuid::Uuid;
use vlib::{CaseOut, Check, Env, ExhaustOut, Failure, Plan, Scratch, Tape, Tier};

use crate::dbx::{DbCfg, block_on, make_id};

// ------------------------------------------------------------------------------------------
// C23

pub struct C23;

fn ev(event_id: Uuid) -> NewEvent {
    NewEvent {
        event_id,
        stream_id: StreamId::new("s").unwrap(),
        stream_version: ExpectedVersion::Any,
        event_name: "e".into(),
        timestamp: 1,
        metadata: vec![],
        payload: vec![],
    }
}

fn c23_check_id(h: u16, id: Uuid, fails: &mut Vec<(Failure, Value)>, origin: &str) {
    let p = json!({"kind": "id", "hash": h, "id": id.to_string(), "origin": origin});
    if uuid_to_partition_hash(id) != h {
        fails.push((Failure::new("C23/id/hash-roundtrip", format!("id {id} built for hash {h} yields {}", uuid_to_partition_hash(id))), p.clone()));
    }
    if !validate_event_id(id, h) {
        fails.push((Failure::new("C23/id/validate", format!("id {id} does not validate for hash {h}")), p.clone()));
    }
    // validates for its partition key through the public constructor, and not for another key
    let key = make_id(h, 7, 99);
    if Transaction::new(key, 0, smallvec![ev(id)]).is_err() {
        fails.push((Failure::new("C23/id/transaction-new-rejects", format!("Transaction::new rejects id {id} for a key with hash {h}")), p.clone()));
    }
    let other = make_id(h ^ 1, 7, 99);
    if Transaction::new(other, 0, smallvec![ev(id)]).is_ok() {
        fails.push((Failure::new("C23/id/transaction-new-accepts-foreign", format!("Transaction::new accepts id {id} (hash {h}) for a key with hash {}", h ^ 1)), p));
    }
}

fn c23_check_flag(x: u128, fails: &mut Vec<Failure>) {
    let u = Uuid::from_bytes(x.to_be_bytes());
    for b in [false, true] {
        let r = set_uuid_flag(u, b);
        let rx = u128::from_be_bytes(r.into_bytes());
        let diff = rx ^ x;
        if diff & !(1u128 << 63) != 0 {
            fails.push(Failure::new("C23/flag/changes-other-bits", format!("set_uuid_flag({u},{b}) changed bits {diff:#x}")));
        }
        if get_uuid_flag(&r) != b {
            fails.push(Failure::new("C23/flag/readback", format!("get_uuid_flag(set_uuid_flag({u},{b})) != {b}")));
        }
        if set_uuid_flag(r, b) != r {
            fails.push(Failure::new("C23/flag/idempotent", format!("set_uuid_flag not idempotent on {u} flag {b}")));
        }
        if uuid_to_partition_hash(r) != uuid_to_partition_hash(u) {
            fails.push(Failure::new("C23/flag/changes-hash", format!("flag {b} changed the embedded hash of {u}")));
        }
    }
}

fn c23_check_route(h: u16, partitions: u16, buckets: u16, salt: u64, fails: &mut Vec<Failure>) {
    // what every caller does: partition = hash % P (server EAPPEND/EMAPPEND, cluster ReadEvent),
    // bucket = partition % B (Database::append_events / read_*)
    let key = make_id(h, 1, salt);
    let event_id = make_id(h, 2, salt.rotate_left(7));
    let p_by_key = uuid_to_partition_hash(key) % partitions;
    let p_by_event = uuid_to_partition_hash(event_id) % partitions;
    if p_by_key != p_by_event {
        fails.push(Failure::new("C23/route/partition-key-vs-event", format!("hash {h} P={partitions}: partition by key {p_by_key} != by event id {p_by_event}")));
    }
    let b_db = p_by_key % buckets;
    let b_helper = partition_id_to_bucket(p_by_key, buckets);
    if b_db != b_helper {
        fails.push(Failure::new("C23/route/partition_id_to_bucket-vs-database", format!("P={partitions} B={buckets} partition {p_by_key}: helper {b_helper} != database {b_db}")));
    }
    // a transaction is routed by its key: *every* event id must embed the key's hash. Multi-event
    // transactions with exactly one foreign id (any position, length 2-6, foreign hash differing in
    // one low bit / one high bit / by the partition count) must be rejected, the all-own one accepted
    let n = 2 + (salt % 5) as usize;
    let bad_at = (salt >> 8) as usize % n;
    let foreign_hash = match (salt >> 16) % 3 {
        0 => h ^ 1,
        1 => h ^ 0x8000,
        _ => h.wrapping_add(partitions),
    };
    let own: smallvec::SmallVec<[NewEvent; 4]> = (0..n).map(|i| ev(make_id(h, 10 + i as u64, salt))).collect();
    if Transaction::new(key, p_by_key, own).is_err() {
        fails.push(Failure::new("C23/id/transaction-new-rejects", format!("Transaction::new rejects a {n}-event transaction whose ids all embed the key's hash {h}")));
    }
    if foreign_hash != h {
        let mixed: smallvec::SmallVec<[NewEvent; 4]> = (0..n).map(|i| ev(make_id(if i == bad_at { foreign_hash } else { h }, 10 + i as u64, salt))).collect();
        if Transaction::new(key, p_by_key, mixed).is_ok() {
            fails.push(Failure::new("C23/id/transaction-new-accepts-mixed", format!("Transaction::new accepts a {n}-event transaction for a key with hash {h} although event {bad_at} carries an id with hash {foreign_hash} (partition {} instead of {p_by_key} of {partitions})", foreign_hash % partitions)));
        }
    }
    let b_event = extract_event_id_bucket(event_id, buckets);
    if b_event != b_helper {
        fails.push(Failure::new(
            "C23/route/extract_event_id_bucket-vs-partition-bucket",
            format!("hash {h} P={partitions} B={buckets}: bucket by event id {b_event} != bucket of its partition {b_helper}"),
        ));
    }
}

impl Check for C23 {
    fn id(&self) -> &'static str {
        "C23"
    }
    fn level(&self) -> &'static str {
        "exploration"
    }
    fn rule(&self) -> String {
        "exhaustive stage: every one of the 2^16 partition hashes x {repo generator (wall clock/thread RNG), harness bit patterns with all-zero / all-one / mixed random fields} checked for hash round-trip, validate_event_id and Transaction::new (own key accepted, key with another hash rejected). PBT stage: tape-derived arbitrary 128-bit patterns for the flag functions and (hash, partitions>=buckets>=1) routing triples, each with a 2-6 event transaction of own ids (accepted) and one with a single foreign id at a tape-chosen position (rejected). Non-trivial: flag case whose input already has the flag bit set or whose variant bits are not 10; routing case with buckets>1 and partitions not a multiple of buckets; exhaustive hashes count each hash once.".into()
    }
    fn assumptions(&self) -> Vec<String> {
        vec![
            "routing domain = configurations accepted by AppConfig::validate: partitions >= buckets >= 1".into(),
            "partition of a key = hash % partitions and bucket of a partition = partition % buckets, as every caller in the workspace computes them".into(),
        ]
    }
    fn plan(&self, tier: Tier) -> Plan {
        Plan {
            cases: if tier == Tier::Quick { 200_000 } else { 2_000_000 },
            max_tape: 12,
            shard_cases: if tier == Tier::Quick { 12_500 } else { 50_000 },
            exhaustive_shards: 16,
            ..Plan::default()
        }
    }
    fn exhaustive_claim(&self, _tier: Tier) -> bool {
        false
    }
    fn run_case(&self, t: &mut Tape, _env: &Env) -> CaseOut {
        let mut out = CaseOut::default();
        let mut fails = Vec::new();
        if t.bool() {
            // routing
            let h = match t.weighted(&[2, 1]) {
                0 => t.below(65536) as u16,
                _ => *t.pick(&[0u16, 1, 2, 3, 255, 256, 1023, 1024, 32767, 32768, 65534, 65535]),
            };
            let buckets = match t.weighted(&[3, 1]) {
                0 => 1 + t.below(16) as u16,
                _ => *t.pick(&[1u16, 2, 255, 256, 1024, 65535]),
            };
            let partitions = match t.weighted(&[3, 1, 1]) {
                0 => buckets.saturating_add(t.below(64) as u16),
                1 => buckets.saturating_mul(1 + t.below(8) as u16),
                _ => (buckets as u64 + t.below(65536 - buckets as u64)) as u16,
            };
            let salt = t.raw() as u64;
            c23_check_route(h, partitions, buckets, salt, &mut fails);
            out.nontrivial = buckets > 1 && partitions % buckets != 0;
            out.class("route");
            if partitions % buckets == 0 {
                out.class("route/buckets-divide-partitions");
            }
            out.set_sample(json!({"kind": "route", "hash": h, "partitions": partitions, "buckets": buckets, "salt": salt}));
        } else {
            let x = match t.weighted(&[1, 3, 2]) {
                0 => *t.pick(&[0u128, u128::MAX, 1u128 << 63, !(1u128 << 63), 1u128 << 62, 3u128 << 62]),
                1 => {
                    let a = t.raw() as u128;
                    let b = t.raw() as u128;
                    let c = t.raw() as u128;
                    let d = t.raw() as u128;
                    (a << 96) | (b << 64) | (c << 32) | d
                }
                _ => {
                    let h = t.below(65536) as u16;
                    u128::from_be_bytes(make_id(h, t.raw() as u64, t.raw() as u64).into_bytes())
                }
            };
            c23_check_flag(x, &mut fails);
            out.nontrivial = (x >> 63) & 1 == 1 || (x >> 62) & 3 != 2;
            out.class("flag");
            out.set_sample(json!({"kind": "flag", "bits": format!("{x:#034x}")}));
        }
        out.failures = fails;
        out
    }
    fn run_exhaustive(&self, shard: u64, total: u64, _env: &Env) -> ExhaustOut {
        let mut o = ExhaustOut::default();
        let mut fails = Vec::new();
        for h in (0..=u16::MAX).filter(|h| (*h as u64) % total == shard) {
            // repo generator (sampled clock + thread rng)
            for _ in 0..4 {
                c23_check_id(h, uuid_v7_with_partition_hash(h), &mut fails, "uuid_v7_with_partition_hash");
                o.evaluations += 1;
            }
            // harness bit patterns around the hash field
            for (n, salt) in [(0u64, 0u64), (u64::MAX, u64::MAX), (h as u64 * 31 + 1, 0xDEAD_BEEF_0BAD_F00D ^ h as u64)] {
                c23_check_id(h, make_id(h, n, salt), &mut fails, "harness layout");
                o.evaluations += 1;
            }
            // all other bits set / clear around the hash
            let ones = Uuid::from_bytes(((u128::MAX & !(0xFFFFu128 << 46)) | ((h as u128) << 46)).to_be_bytes());
            let zeros = Uuid::from_bytes(((h as u128) << 46).to_be_bytes());
            for id in [ones, zeros] {
                if uuid_to_partition_hash(id) != h {
                    fails.push((Failure::new("C23/id/hash-extract", format!("extract of {id} != {h}")), json!({"kind": "id", "hash": h, "id": id.to_string(), "origin": "extremes"})));
                }
                let mut f2 = Vec::new();
                c23_check_flag(u128::from_be_bytes(id.into_bytes()), &mut f2);
                for f in f2 {
                    fails.push((f, json!({"kind": "flag", "bits": format!("{:#034x}", u128::from_be_bytes(id.into_bytes()))})));
                }
                o.evaluations += 1;
            }
            o.nontrivial += 1;
            if o.samples.len() < 2 {
                o.samples.push(json!({"hash": h, "repo_id": uuid_v7_with_partition_hash(h).to_string(), "harness_id": make_id(h, 5, 5).to_string()}));
            }
        }
        o.counters.insert("hashes_enumerated".into(), o.nontrivial);
        o.failures = fails;
        o
    }
    fn replay_params(&self, p: &Value, _env: &Env) -> Vec<Failure> {
        let mut out = Vec::new();
        match p.get("kind").and_then(|k| k.as_str()) {
            Some("id") => {
                let h = p["hash"].as_u64().unwrap_or(0) as u16;
                let id = Uuid::from_str(p["id"].as_str().unwrap_or("")).unwrap_or(Uuid::nil());
                let mut f = Vec::new();
                c23_check_id(h, id, &mut f, "replay");
                out.extend(f.into_iter().map(|x| x.0));
            }
            Some("flag") => {
                let s = p["bits"].as_str().unwrap_or("0x0").trim_start_matches("0x");
                let x = u128::from_str_radix(s, 16).unwrap_or(0);
                c23_check_flag(x, &mut out);
            }
            Some("route") => {
                c23_check_route(p["hash"].as_u64().unwrap_or(0) as u16, p["partitions"].as_u64().unwrap_or(1) as u16, p["buckets"].as_u64().unwrap_or(1) as u16, p["salt"].as_u64().unwrap_or(0), &mut out);
            }
            _ => {}
        }
        out
    }
}

// ------------------------------------------------------------------------------------------
// C25

pub struct C25;

const BOUNDS: [u64; 16] = [
    0,
    1,
    2,
    3,
    41,
    (1 << 32) - 1,
    1 << 32,
    (1 << 32) + 1,
    (1 << 63) - 1,
    1 << 63,
    (1 << 63) + 1,
    u64::MAX - 2,
    u64::MAX - 1,
    u64::MAX,
    255,
    65536,
];

fn pos_expected(e: ExpectedVersion) -> Option<i128> {
    match e {
        ExpectedVersion::Empty => Some(-1),
        ExpectedVersion::Exact(v) => Some(v as i128),
        _ => None,
    }
}

fn pos_current(c: CurrentVersion) -> i128 {
    match c {
        CurrentVersion::Empty => -1,
        CurrentVersion::Current(v) => v as i128,
    }
}

/// The statement's reading of `gap_from`: signed distance between where the stream is and where
/// the expectation says it is, with "empty" one below version 0.
fn gap_oracle(e: ExpectedVersion, c: CurrentVersion) -> Result<VersionGap, (bool, i128)> {
    match e {
        ExpectedVersion::Any => Ok(VersionGap::None),
        ExpectedVersion::Exists => Ok(match c {
            CurrentVersion::Empty => VersionGap::Incompatible,
            CurrentVersion::Current(_) => VersionGap::None,
        }),
        _ => {
            let d = pos_current(c) - pos_expected(e).unwrap();
            if d == 0 {
                Ok(VersionGap::None)
            } else if d.unsigned_abs() <= u64::MAX as u128 {
                Ok(if d > 0 { VersionGap::Ahead(d as u64) } else { VersionGap::Behind((-d) as u64) })
            } else {
                // distance 2^64 is not representable: any Ahead/Behind of the right sign is accepted
                Err((d > 0, d))
            }
        }
    }
}

fn model_satisfied(e: ExpectedVersion, c: CurrentVersion) -> bool {
    match e {
        ExpectedVersion::Any => true,
        ExpectedVersion::Exists => matches!(c, CurrentVersion::Current(_)),
        ExpectedVersion::Empty => matches!(c, CurrentVersion::Empty),
        ExpectedVersion::Exact(v) => c == CurrentVersion::Current(v),
    }
}

fn c25_check_pair(e: ExpectedVersion, c: CurrentVersion, fails: &mut Vec<Failure>) {
    let r = catch_unwind(AssertUnwindSafe(|| e.gap_from(c)));
    match r {
        Err(_) => fails.push(Failure::new("C25/gap_from/panic", format!("gap_from({e:?}, {c:?}) panicked"))),
        Ok(g) => match gap_oracle(e, c) {
            Ok(want) => {
                if g != want {
                    fails.push(Failure::new("C25/gap_from/wrong-distance", format!("gap_from({e:?}, {c:?}) = {g:?}, signed distance says {want:?}")));
                }
            }
            Err((ahead, d)) => {
                let ok = matches!((ahead, g), (true, VersionGap::Ahead(_)) | (false, VersionGap::Behind(_)));
                if !ok {
                    fails.push(Failure::new("C25/gap_from/wrong-sign-at-limit", format!("gap_from({e:?}, {c:?}) = {g:?}, distance {d}")));
                }
            }
        },
    }
    let r = catch_unwind(AssertUnwindSafe(|| e.is_satisfied_by(c)));
    match r {
        Err(_) => fails.push(Failure::new("C25/is_satisfied_by/panic", format!("is_satisfied_by({e:?}, {c:?}) panicked"))),
        Ok(b) => {
            if b != model_satisfied(e, c) {
                fails.push(Failure::new("C25/is_satisfied_by/wrong", format!("is_satisfied_by({e:?}, {c:?}) = {b}")));
            }
        }
    }
}

fn c25_check_roundtrips(e: ExpectedVersion, v: u64, fails: &mut Vec<Failure>) {
    // Display -> FromStr
    let s = e.to_string();
    match ExpectedVersion::from_str(&s) {
        Ok(back) if back == e => {}
        other => fails.push(Failure::new("C25/display-parse/expected", format!("{e:?} displays as {s:?}, which parses to {other:?}"))),
    }
    // canonical string -> parse -> display
    let canon = v.to_string();
    match ExpectedVersion::from_str(&canon) {
        Ok(p) if p.to_string() == canon && p == ExpectedVersion::Exact(v) => {}
        other => fails.push(Failure::new("C25/parse-display/expected", format!("{canon:?} parses to {other:?}"))),
    }
    for kw in ["any", "exists", "empty"] {
        match ExpectedVersion::from_str(kw) {
            Ok(p) if p.to_string() == kw => {}
            other => fails.push(Failure::new("C25/parse-display/keyword", format!("{kw:?} parses to {other:?}"))),
        }
    }
    let c = if v % 7 == 3 { CurrentVersion::Empty } else { CurrentVersion::Current(v) };
    match CurrentVersion::from_str(&c.to_string()) {
        Ok(back) if back == c => {}
        other => fails.push(Failure::new("C25/display-parse/current", format!("{c:?} -> {:?} -> {other:?}", c.to_string()))),
    }
    // from_next_version / into_next_version
    let r = catch_unwind(AssertUnwindSafe(|| ExpectedVersion::from_next_version(v).into_next_version()));
    match r {
        Ok(Some(back)) if back == v => {}
        other => fails.push(Failure::new("C25/next-version/from-into", format!("from_next_version({v}).into_next_version() = {other:?}"))),
    }
    if let ExpectedVersion::Empty | ExpectedVersion::Exact(_) = e {
        let r = catch_unwind(AssertUnwindSafe(|| e.into_next_version()));
        match (e, r) {
            (ExpectedVersion::Exact(u64::MAX), Ok(None)) => {}
            (_, Ok(Some(n))) if ExpectedVersion::from_next_version(n) == e => {}
            (_, other) => fails.push(Failure::new("C25/next-version/into-from", format!("{e:?}.into_next_version() = {other:?}"))),
        }
    }
    // consistency with CurrentVersion::next / as_expected_version (same algebra)
    let cur = CurrentVersion::Current(v);
    if v < u64::MAX {
        if ExpectedVersion::from_next_version(cur.next()) != cur.as_expected_version() {
            fails.push(Failure::new("C25/next-version/current-next", format!("from_next_version({cur:?}.next()) != as_expected_version")));
        }
    }
    if !cur.as_expected_version().is_satisfied_by(cur) || !CurrentVersion::Empty.as_expected_version().is_satisfied_by(CurrentVersion::Empty) {
        fails.push(Failure::new("C25/is_satisfied_by/as-expected", format!("{cur:?}.as_expected_version() not satisfied by itself")));
    }
}

fn gen_expected(t: &mut Tape) -> ExpectedVersion {
    match t.weighted(&[1, 1, 1, 5]) {
        0 => ExpectedVersion::Any,
        1 => ExpectedVersion::Exists,
        2 => ExpectedVersion::Empty,
        _ => ExpectedVersion::Exact(t.u64_boundary()),
    }
}

fn gen_current(t: &mut Tape) -> CurrentVersion {
    match t.weighted(&[1, 4]) {
        0 => CurrentVersion::Empty,
        _ => CurrentVersion::Current(t.u64_boundary()),
    }
}

/// Differential against the real writer: a stream and a partition are grown by appends whose
/// expectations come from the tape; the database must accept exactly when `is_satisfied_by`
/// says the expectation holds for the current version.
fn c25_db_case(t: &mut Tape, out: &mut CaseOut) -> Vec<Failure> {
    let mut fails = Vec::new();
    let scratch = Scratch::new("c25");
    let mut cfg = DbCfg::simple();
    cfg.sync_interval_ms = *t.pick(&[0u64, 1]);
    let db = match cfg.open(scratch.path()) {
        Ok(db) => db,
        Err(e) => {
            fails.push(Failure::new("C25/db/open", format!("{e}")));
            return fails;
        }
    };
    let key = make_id(0, 1, 1);
    let n_ops = 4 + t.below(14);
    let mut stream_cur = CurrentVersion::Empty;
    let mut part_cur = CurrentVersion::Empty;
    let mut log = Vec::new();
    let mut accepted_both = (false, false);
    block_on(async {
        for i in 0..n_ops {
            let pick = |t: &mut Tape, cur: CurrentVersion| -> ExpectedVersion {
                match t.weighted(&[3, 1, 1, 1, 2, 1]) {
                    0 => cur.as_expected_version(),
                    1 => ExpectedVersion::Any,
                    2 => ExpectedVersion::Exists,
                    3 => ExpectedVersion::Empty,
                    4 => match cur {
                        CurrentVersion::Empty => ExpectedVersion::Exact(t.below(3)),
                        CurrentVersion::Current(v) => ExpectedVersion::Exact(if t.bool() { v + 1 + t.below(3) } else { v.saturating_sub(1 + t.below(3)) }),
                    },
                    _ => ExpectedVersion::Exact(*t.pick(&BOUNDS)),
                }
            };
            let on_stream = t.bool();
            let (se, pe) = if on_stream { (pick(t, stream_cur), ExpectedVersion::Any) } else { (ExpectedVersion::Any, pick(t, part_cur)) };
            let mut e = ev(make_id(0, 100 + i, 3));
            e.stream_version = se;
            let tx = Transaction::new(key, 0, smallvec![e]).unwrap().expected_partition_sequence(pe);
            let res = db.append_events(tx).await;
            let want = model_satisfied(se, stream_cur) && model_satisfied(pe, part_cur);
            log.push(json!({"stream_expected": se.to_string(), "partition_expected": pe.to_string(), "stream_current": stream_cur.to_string(), "partition_current": part_cur.to_string(), "accepted": res.is_ok()}));
            if res.is_ok() != want {
                let what = if on_stream { "stream-version" } else { "partition-sequence" };
                fails.push(Failure::new(
                    format!("C25/db-differential/{what}"),
                    format!("database {} an append with stream expectation {se:?} (current {stream_cur:?}) and partition expectation {pe:?} (current {part_cur:?}) but is_satisfied_by says {want}", if res.is_ok() { "accepted" } else { "rejected" }),
                ));
                break;
            }
            if res.is_ok() {
                stream_cur += 1;
                part_cur += 1;
                if on_stream {
                    accepted_both.0 = true
                } else {
                    accepted_both.1 = true
                }
            }
        }
        db.shutdown().await;
    });
    drop(db);
    out.nontrivial = accepted_both.0 && accepted_both.1 && log.iter().any(|l| l["accepted"] == json!(false));
    out.class("db-differential");
    out.set_sample(json!({"kind": "db", "ops": log}));
    fails
}

impl Check for C25 {
    fn id(&self) -> &'static str {
        "C25"
    }
    fn level(&self) -> &'static str {
        "exploration"
    }
    fn rule(&self) -> String {
        "exhaustive stage: every (expected kind, current kind) over a 16-value boundary set (0,1,2,3,2^32+-1,2^63+-1,u64::MAX-2..u64::MAX,...) for gap_from / is_satisfied_by, and every boundary value for Display/FromStr and from_next_version/into_next_version. PBT stage: pairs with values drawn from boundaries, small numbers and the full u64 range; one case in eight is a differential history against a real database (appends with tape-chosen stream/partition expectations, accept == is_satisfied_by). Non-trivial: pure pair with an Exact expectation whose value differs from the current one, or involving u64::MAX; database history with accepted stream- and partition-expectation appends and at least one rejection.".into()
    }
    fn assumptions(&self) -> Vec<String> {
        vec![
            "signed distance: 'empty' counts as one below version 0 (what the code reports for Empty vs Current(n) and Exact(e) vs Empty)".into(),
            "a distance of 2^64 is not representable in VersionGap; any Ahead/Behind of the right sign is accepted there".into(),
            "Display/FromStr domain: the keywords and canonical decimal u64 strings; into_next_version domain: Empty and Exact (Any/Exists panic by documented design)".into(),
        ]
    }
    fn plan(&self, tier: Tier) -> Plan {
        Plan {
            cases: if tier == Tier::Quick { 64_000 } else { 640_000 },
            max_tape: 64,
            shard_cases: if tier == Tier::Quick { 1_000 } else { 1_250 },
            exhaustive_shards: 1,
            max_shrink_iters: 500,
            ..Plan::default()
        }
    }
    fn abort_is_violation(&self) -> bool {
        true
    }
    fn run_case(&self, t: &mut Tape, _env: &Env) -> CaseOut {
        let mut out = CaseOut::default();
        if t.chance(1, 8) {
            out.failures = c25_db_case(t, &mut out);
            return out;
        }
        let e = gen_expected(t);
        let c = gen_current(t);
        let v = t.u64_boundary();
        let mut fails = Vec::new();
        c25_check_pair(e, c, &mut fails);
        c25_check_roundtrips(e, v, &mut fails);
        out.nontrivial = match (e, c) {
            (ExpectedVersion::Exact(a), CurrentVersion::Current(b)) => a != b || a == u64::MAX,
            (ExpectedVersion::Exact(a), CurrentVersion::Empty) => a > 0,
            (ExpectedVersion::Empty, CurrentVersion::Current(b)) => b > 0,
            _ => false,
        };
        out.class("pure-pair");
        out.set_sample(json!({"kind": "pair", "expected": format!("{e:?}"), "current": format!("{c:?}"), "value": v}));
        out.failures = fails;
        out
    }
    fn run_exhaustive(&self, _shard: u64, _total: u64, _env: &Env) -> ExhaustOut {
        let mut o = ExhaustOut::default();
        let mut exps = vec![ExpectedVersion::Any, ExpectedVersion::Exists, ExpectedVersion::Empty];
        exps.extend(BOUNDS.iter().map(|v| ExpectedVersion::Exact(*v)));
        let mut curs = vec![CurrentVersion::Empty];
        curs.extend(BOUNDS.iter().map(|v| CurrentVersion::Current(*v)));
        for e in &exps {
            for c in &curs {
                let mut f = Vec::new();
                c25_check_pair(*e, *c, &mut f);
                o.evaluations += 1;
                o.nontrivial += 1;
                for x in f {
                    o.failures.push((x, json!({"expected": e.to_string(), "current": c.to_string()})));
                }
            }
            for v in BOUNDS {
                let mut f = Vec::new();
                c25_check_roundtrips(*e, v, &mut f);
                o.evaluations += 1;
                for x in f {
                    o.failures.push((x, json!({"expected": e.to_string(), "value": v.to_string()})));
                }
            }
        }
        o.samples.push(json!({"expected": "Exact(18446744073709551615)", "current": "Empty"}));
        o.samples.push(json!({"expected": "Empty", "current": "Current(18446744073709551615)"}));
        o
    }
    fn replay_params(&self, p: &Value, _env: &Env) -> Vec<Failure> {
        let mut out = Vec::new();
        let e = ExpectedVersion::from_str(p["expected"].as_str().unwrap_or("any")).unwrap_or(ExpectedVersion::Any);
        if let Some(c) = p.get("current").and_then(|c| c.as_str()) {
            let c = CurrentVersion::from_str(c).unwrap_or(CurrentVersion::Empty);
            c25_check_pair(e, c, &mut out);
        }
        if let Some(v) = p.get("value").and_then(|c| c.as_str()) {
            c25_check_roundtrips(e, v.parse().unwrap_or(0), &mut out);
        }
        out
    }
}
