//! Concurrency checks on the embedded database: C15 (readers never go backwards, incl. the
//! rollover window owned through pause hooks), C16 (conflicting appends are serialised),
//! C20 (every append completes in bounded time).

use std::collections::{BTreeMap, HashMap};
use std::sync::atomic::{AtomicBool, AtomicU64, Ordering};
use std::sync::{Arc, Mutex};
use std::time::{Duration, Instant};

use serde_json::{Value, json};
use sierradb::database::{Database, ExpectedVersion, NewEvent, Transaction};
use sierradb::id::set_uuid_flag;
use sierradb::{IterDirection, StreamId};
use smallvec::SmallVec;
use uuid::Uuid;
use vlib::{CaseOut, Check, Env, Plan, Scratch, Tape, Tier};

use crate::dbx::{DbCfg, key_hash, make_id, partition_key};
use crate::model::{Model, TxInput};
use crate::store::{Interp, cfg_json, payload_bytes, stream_name};

pub fn wide_block_on<F: std::future::Future>(f: F) -> F::Output {
    thread_local! {
        static RT: tokio::runtime::Runtime = tokio::runtime::Builder::new_multi_thread()
            .worker_threads(8)
            .enable_all()
            .build()
            .unwrap();
    }
    RT.with(|rt| rt.block_on(f))
}

static NEXT: AtomicU64 = AtomicU64::new(1);

fn mk_tx(cfg: &DbCfg, key_idx: u8, events: Vec<(String, ExpectedVersion, usize, u8, u64)>, case_salt: u64) -> TxInput {
    let key = partition_key(key_idx as u16, cfg.partitions);
    let hash = key_hash(key_idx as u16, cfg.partitions);
    let pid = hash % cfg.partitions;
    let evs: Vec<NewEvent> = events
        .into_iter()
        .map(|(sid, expect, len, kind, ts)| {
            let n = NEXT.fetch_add(1, Ordering::Relaxed);
            NewEvent {
                event_id: make_id(hash, n, case_salt),
                stream_id: StreamId::new(sid).unwrap(),
                stream_version: expect,
                event_name: "E".into(),
                timestamp: ts,
                metadata: vec![],
                payload: payload_bytes(kind, n as u32, len),
            }
        })
        .collect();
    let n = NEXT.fetch_add(1, Ordering::Relaxed);
    let tx_id = set_uuid_flag(make_id(hash, 0x7000_0000_0000 + n, case_salt), evs.len() == 1);
    TxInput { key, partition_id: pid, tx_id, events: evs, expected_seq: ExpectedVersion::Any, confirmation: 0 }
}

fn to_transaction(tx: &TxInput) -> Transaction {
    let events: SmallVec<[NewEvent; 4]> = tx.events.iter().cloned().collect();
    Transaction::new(tx.key, tx.partition_id, events).unwrap().expected_partition_sequence(tx.expected_seq).with_transaction_id(tx.tx_id)
}

const GOOD_TS: u64 = 1_700_000_000_000_000_000;

// ------------------------------------------------------------------------------------------
// C16

pub struct C16;

#[derive(Clone, Debug)]
struct ClientOp {
    stream: u8,
    mode: u8, // 0 optimistic (read version, expect it), 1 Any, 2 Empty, 3 stale exact (version - 1), 4 optimistic on the partition sequence (stream: Any), 5 partition sequence Empty
    second_stream: Option<u8>,
    payload: usize,
}

#[derive(Clone, Debug)]
struct OpLog {
    client: usize,
    tx: TxInput,
    t_inv: u64,
    t_res: u64,
    ok: Option<(u64, u64, BTreeMap<String, u64>)>,
    err: Option<String>,
}

impl Check for C16 {
    fn id(&self) -> &'static str {
        "C16"
    }
    fn level(&self) -> &'static str {
        "exploration"
    }
    fn rule(&self) -> String {
        "case = configuration (1-4 buckets, 1-4 writer threads, partitions, sync settings) + 4-16 client tasks on an 8-thread runtime, each with 3-12 generated operations over 4 streams on 2 partition keys: optimistic (read the version, then append expecting it), Any, Empty, stale Exact, optimistic on the *partition sequence* (read it, expect it; stream expectation Any) and partition sequence Empty, optionally with a second event on another stream of the same key. Every invocation/response is stamped with a shared logical clock. Oracle (sound for every schedule): per partition the successes sorted by assigned sequence are gapless from 0 and replay in the reference model (each expectation holds at its turn, assigned sequences/versions equal the model's); a WrongExpectedVersion failure is only a violation when the log proves the stream sat at exactly the expected version for the whole invocation interval; the final database passes the full audit against the replayed model. Non-trivial: two operations with the same exact/empty expectation on one stream whose invocation intervals overlap, with exactly one winner.".into()
    }
    fn assumptions(&self) -> Vec<String> {
        vec!["real thread interleavings are sampled by the OS scheduler; the oracle does not depend on which one occurred".into(), "every stream is written with one partition key (no key-mismatch rejections are generated)".into()]
    }
    fn plan(&self, tier: Tier) -> Plan {
        let quick = tier == Tier::Quick;
        Plan { cases: if quick { 1600 } else { 16_000 }, max_tape: 8, min_slots: 20, max_slots: 150, shard_cases: 10, shard_timeout_s: if quick { 300 } else { 900 }, max_shrink_iters: 100, ..Plan::default() }
    }
    fn abort_is_violation(&self) -> bool {
        true
    }
    fn run_case(&self, t: &mut Tape, env: &Env) -> CaseOut {
        let mut out = CaseOut::default();
        let cfg = DbCfg::generate(t);
        let n_clients = 4 + t.usize_below(13);
        let salt = t.raw() as u64;
        // one op per slot, dealt round-robin to the clients
        let mut per_client: Vec<Vec<ClientOp>> = vec![Vec::new(); n_clients];
        let mut i = 0;
        while t.next_slot() {
            let op = ClientOp { stream: t.below(4) as u8, mode: [0u8, 0, 0, 1, 2, 3, 4, 4, 5][t.usize_below(9)], second_stream: if t.chance(1, 5) { Some(t.below(4) as u8) } else { None }, payload: *t.pick(&[20usize, 200, 3000, 20000]) };
            per_client[i % n_clients].push(op);
            i += 1;
        }
        let scratch = Scratch::new("c16");
        let clock = Arc::new(AtomicU64::new(1));
        let logs: Arc<Mutex<Vec<OpLog>>> = Arc::new(Mutex::new(Vec::new()));
        let cfg2 = cfg.clone();
        let mut final_fail: Vec<(String, String)> = Vec::new();
        let mut audit_out = CaseOut::default();
        let db = match cfg.open(scratch.path()) {
            Ok(db) => db,
            Err(e) => {
                out.fail("C16/open", format!("{e}"));
                return out;
            }
        };
        let all_logs = wide_block_on(async {
            let mut handles = Vec::new();
            for (ci, ops) in per_client.iter().cloned().enumerate() {
                let db = db.clone();
                let cfg = cfg2.clone();
                let clock = clock.clone();
                let logs = logs.clone();
                handles.push(tokio::spawn(async move {
                    for op in ops {
                        // streams 0,2 -> key 0; 1,3 -> key 1
                        let key_idx = op.stream % 2;
                        let sid = stream_name(op.stream);
                        let pid = key_hash(key_idx as u16, cfg.partitions) % cfg.partitions;
                        let cur = db.get_stream_version(pid, &StreamId::new(sid.clone()).unwrap()).await.ok().flatten().map(|v| v.version);
                        // expectations on the partition sequence race the same way (and pass the
                        // stream-version validation, so they reach the later sequence check)
                        let expect_seq = match op.mode {
                            4 => match db.get_partition_sequence(pid).await.ok().flatten() {
                                Some(s) => ExpectedVersion::Exact(s.sequence),
                                None => ExpectedVersion::Empty,
                            },
                            5 => ExpectedVersion::Empty,
                            _ => ExpectedVersion::Any,
                        };
                        let expect = match op.mode {
                            0 => cur.map(ExpectedVersion::Exact).unwrap_or(ExpectedVersion::Empty),
                            1 | 4 | 5 => ExpectedVersion::Any,
                            2 => ExpectedVersion::Empty,
                            _ => match cur {
                                Some(v) if v > 0 => ExpectedVersion::Exact(v - 1),
                                _ => ExpectedVersion::Exact(7),
                            },
                        };
                        let mut events = vec![(sid.clone(), expect, op.payload, 1u8, GOOD_TS)];
                        if let Some(s2) = op.second_stream {
                            let s2 = (s2 & !1) | key_idx; // same key
                            if s2 != op.stream {
                                events.push((stream_name(s2), ExpectedVersion::Any, 30, 1, GOOD_TS));
                            }
                        }
                        let mut tx = mk_tx(&cfg, key_idx, events, salt);
                        tx.expected_seq = expect_seq;
                        let t_inv = clock.fetch_add(1, Ordering::SeqCst);
                        let res = db.append_events(to_transaction(&tx)).await;
                        let t_res = clock.fetch_add(1, Ordering::SeqCst);
                        let (ok, err) = match res {
                            Ok(r) => (Some((r.first_partition_sequence, r.last_partition_sequence, r.stream_versions.iter().map(|(k, v)| (k.to_string(), *v)).collect())), None),
                            Err(e) => (None, Some(e.to_string())),
                        };
                        logs.lock().unwrap().push(OpLog { client: ci, tx, t_inv, t_res, ok, err });
                    }
                }));
            }
            for h in handles {
                let _ = h.await;
            }
            let all = logs.lock().unwrap().clone();
            all
        });

        // ---- judge
        let mut model = Model::new(cfg.buckets);
        let mut by_part: BTreeMap<u16, Vec<&OpLog>> = BTreeMap::new();
        for l in all_logs.iter().filter(|l| l.ok.is_some()) {
            by_part.entry(l.tx.partition_id).or_default().push(l);
        }
        // stream -> version -> (t_inv, t_res) of the success that produced it
        let mut produced: HashMap<(u16, String), BTreeMap<u64, (u64, u64)>> = HashMap::new();
        'judge: for (pid, list) in by_part.iter_mut() {
            list.sort_by_key(|l| l.ok.as_ref().unwrap().0);
            let mut next = 0u64;
            for l in list.iter() {
                let (first, last, versions) = l.ok.as_ref().unwrap();
                if *first != next {
                    final_fail.push(("success/sequence-gap-or-reuse".into(), format!("partition {pid}: successful appends claim sequences {first}..={last} but the next free sequence is {next}")));
                    break 'judge;
                }
                match model.decide(&l.tx, cfg.segment_size) {
                    Ok(acc) => {
                        if acc.last_seq != *last {
                            final_fail.push(("success/wrong-sequence-range".into(), format!("partition {pid}: reported {first}..={last}, serial execution gives {}..={}", acc.first_seq, acc.last_seq)));
                            break 'judge;
                        }
                        let mut want: BTreeMap<String, u64> = BTreeMap::new();
                        for (e, v) in l.tx.events.iter().zip(&acc.versions) {
                            want.insert(e.stream_id.to_string(), *v);
                        }
                        if &want != versions {
                            final_fail.push(("success/wrong-version".into(), format!("client {} was told versions {versions:?}; in the serial order by sequence they are {want:?}", l.client)));
                            break 'judge;
                        }
                        for (e, v) in l.tx.events.iter().zip(&acc.versions) {
                            produced.entry((*pid, e.stream_id.to_string())).or_default().insert(*v, (l.t_inv, l.t_res));
                        }
                        model.apply(&l.tx, &acc);
                    }
                    Err(rej) => {
                        final_fail.push(("success/not-serialisable".into(), format!("client {}'s append (expectation {} on {:?}) succeeded with sequences {first}..={last}, but in the serial order by sequence its expectation does not hold ({rej:?}): two successes claimed the same version", l.client, l.tx.events[0].stream_version, &*l.tx.events[0].stream_id)));
                        break 'judge;
                    }
                }
                next = last + 1;
            }
        }
        // failures that the log proves unjustified
        if final_fail.is_empty() {
            for l in all_logs.iter().filter(|l| l.err.is_some()) {
                let e = l.err.as_ref().unwrap();
                let is_version = e.contains("current stream version");
                if e.contains("current partition sequence") && !matches!(l.tx.expected_seq, ExpectedVersion::Any) {
                    // a lost race on the partition sequence; whether it was justified is judged
                    // through the successes (sequence reuse / expectation at its turn)
                    continue;
                }
                if !is_version {
                    final_fail.push(("failure/unexpected-error".into(), format!("client {} got an error that no generated input explains: {e}", l.client)));
                    break;
                }
                let ev = &l.tx.events[0];
                let tl = produced.get(&(l.tx.partition_id, ev.stream_id.to_string()));
                let unjustified = match ev.stream_version {
                    ExpectedVersion::Empty => match tl.and_then(|m| m.get(&0)) {
                        None => true,
                        Some((inv0, _)) => *inv0 > l.t_res,
                    },
                    ExpectedVersion::Exact(v) => match tl {
                        None => false,
                        Some(m) => match m.get(&v) {
                            None => false,
                            Some((_, res_v)) => *res_v < l.t_inv && m.get(&(v + 1)).map(|(inv1, _)| *inv1 > l.t_res).unwrap_or(true),
                        },
                    },
                    _ => false,
                };
                if unjustified {
                    final_fail.push(("failure/unjustified".into(), format!("client {}'s append expecting {} on {:?} was rejected ({e}) although the log proves the stream was at exactly that version from before the invocation until after the response", l.client, ev.stream_version, &*ev.stream_id)));
                    break;
                }
            }
        }
        // non-trivial: overlapping conflicting pair with exactly one winner
        let mut nontrivial = false;
        for (i, a) in all_logs.iter().enumerate() {
            for b in all_logs.iter().skip(i + 1) {
                let (ea, eb) = (&a.tx.events[0], &b.tx.events[0]);
                let strict = |e: &ExpectedVersion| matches!(e, ExpectedVersion::Exact(_) | ExpectedVersion::Empty);
                if ea.stream_id == eb.stream_id && ea.stream_version == eb.stream_version && strict(&ea.stream_version) && a.t_inv < b.t_res && b.t_inv < a.t_res && (a.ok.is_some() != b.ok.is_some()) {
                    nontrivial = true;
                }
            }
        }
        // final state == that serial execution
        if final_fail.is_empty() {
            let mut it = Interp::new(cfg.clone(), scratch.path(), "C16", &mut audit_out, env);
            it.report_as = Some("C16");
            it.sig_prefix = "final-state".into();
            it.model = model;
            it.db = Some(db.clone());
            wide_block_on(async {
                it.audit("final").await;
                it.close().await;
            });
        } else {
            wide_block_on(db.shutdown());
        }
        drop(db);
        out.failures.extend(audit_out.failures);
        for (sig, msg) in final_fail {
            out.fail(format!("C16/{sig}"), msg);
        }
        let ok_n = all_logs.iter().filter(|l| l.ok.is_some()).count();
        out.count("operations", all_logs.len() as u64);
        out.count("successes", ok_n as u64);
        out.nontrivial = nontrivial;
        out.set_sample(json!({"config": cfg_json(&cfg), "clients": n_clients, "log": all_logs.iter().take(60).map(|l| json!({"client": l.client, "stream": &*l.tx.events[0].stream_id, "expect": l.tx.events[0].stream_version.to_string(), "events": l.tx.events.len(), "inv": l.t_inv, "res": l.t_res, "result": l.ok.as_ref().map(|o| format!("ok {}..={}", o.0, o.1)).or(l.err.clone())})).collect::<Vec<_>>()}));
        out
    }
}

// ------------------------------------------------------------------------------------------
// C20

pub struct C20;

impl Check for C20 {
    fn id(&self) -> &'static str {
        "C20"
    }
    fn level(&self) -> &'static str {
        "exploration"
    }
    fn rule(&self) -> String {
        "case = sync configuration (interval 0/1/5/20/50 ms, idle interval >= it up to 100 ms, max batch 1/50/1000, min sync bytes 1/4096/huge, 1-2 buckets, segment 128 KiB) + 1-16 client tasks each issuing 2-10 generated appends: small, large (forcing rollovers), multi-event, multi-event failing behind the first event (timestamp >= 2^63), wrong expected version. Oracle: every append future resolves (Ok or Err) within B = 20*max(interval, idle) + 10 s; a miss is confirmed by waiting a further B with no new traffic, and only a future that is still pending then is a violation (a lost wake-up is permanent, a load spike is not). One case in five is a burst: 64 buckets on 64 writer threads (request queue of 16 per writer) and 48-96 clients appending to one bucket at once, followed by a quiet tail of 8 small appends. Non-trivial: a burst, or at least two clients in flight across a rollover with a non-zero sync interval (waiters exist while the segment is switched).".into()
    }
    fn assumptions(&self) -> Vec<String> {
        vec!["healthy disk (tmpfs); the bound is relative to the configured intervals, absurd intervals are outside the domain".into(), "a worker that exceeds its watchdog is reported as inconclusive, not as a violation".into()]
    }
    fn plan(&self, tier: Tier) -> Plan {
        let quick = tier == Tier::Quick;
        Plan { cases: if quick { 480 } else { 4800 }, max_tape: 8, min_slots: 4, max_slots: 120, shard_cases: 10, shard_timeout_s: if quick { 300 } else { 900 }, max_shrink_iters: 6, ..Plan::default() }
    }
    fn abort_is_violation(&self) -> bool {
        true
    }
    fn run_case(&self, t: &mut Tape, _env: &Env) -> CaseOut {
        let mut out = CaseOut::default();
        let interval = *t.pick(&[1u64, 0, 5, 20, 50]);
        let idle = interval.max(*t.pick(&[0u64, 5, 50, 100]));
        let cfg = DbCfg {
            segment_size: crate::dbx::MIN_SEGMENT,
            compression: t.bool(),
            buckets: 1 + t.below(2) as u16,
            writer_threads: 1,
            partitions: 2,
            sync_interval_ms: interval,
            sync_idle_ms: idle,
            max_batch: *t.pick(&[1000usize, 50, 1]),
            min_sync_bytes: *t.pick(&[usize::MAX / 2, 4096, 1]),
        };
        let n_clients = 1 + t.usize_below(16);
        let salt = t.raw() as u64;
        // one case in five (by a hash of the header slot: older replays keep their meaning) is a
        // burst: 64 buckets on 64 writer threads, which makes each writer's request queue as short
        // as it gets (16), and 48-96 clients appending to one bucket at once, so that the queue is
        // full when the periodic flush poll arrives; a quiet tail of small appends follows
        let header_hash = vlib::fnv1a(&t.slots().first().map(|s| s.iter().flat_map(|w| w.to_le_bytes()).collect::<Vec<u8>>()).unwrap_or_default());
        let burst = header_hash % 5 == 0;
        let (cfg, interval, idle, n_clients) = if burst {
            let interval = interval.max(1);
            (DbCfg { buckets: 64, writer_threads: 64, partitions: 64, sync_interval_ms: interval, sync_idle_ms: idle.max(interval), ..cfg }, interval, idle.max(interval), 48 + ((header_hash >> 8) % 49) as usize)
        } else {
            (cfg, interval, idle, n_clients)
        };
        #[derive(Clone, Debug)]
        struct A {
            kind: u8, // 0 small, 1 large, 2 multi, 3 multi failing, 4 wrong version
            stream: u8,
        }
        let mut per_client: Vec<Vec<A>> = vec![Vec::new(); n_clients];
        let mut i = 0;
        while t.next_slot() {
            per_client[i % n_clients].push(A { kind: [0u8, 0, 0, 1, 1, 2, 3, 4][t.usize_below(8)], stream: t.below(4) as u8 });
            i += 1;
        }
        if burst {
            // everybody hits the same key (one bucket, one writer thread) with small appends
            for (ci, ops) in per_client.iter_mut().enumerate() {
                ops.clear();
                ops.push(A { kind: 0, stream: (ci % 2) as u8 * 2 });
                ops.push(A { kind: 0, stream: (ci % 2) as u8 * 2 });
            }
        }
        let bound = Duration::from_millis(20 * interval.max(idle) + 10_000);
        let scratch = Scratch::new("c20");
        let db = match cfg.open(scratch.path()) {
            Ok(db) => db,
            Err(e) => {
                out.fail("C20/open", format!("{e}"));
                return out;
            }
        };
        let stuck: Arc<Mutex<Vec<String>>> = Arc::new(Mutex::new(Vec::new()));
        let slow = Arc::new(AtomicU64::new(0));
        let rollovers = Arc::new(AtomicU64::new(0));
        let max_ms = Arc::new(AtomicU64::new(0));
        let inflight = Arc::new(AtomicU64::new(0));
        let rollover_with_waiters = Arc::new(AtomicBool::new(false));
        let last_off: Arc<Mutex<HashMap<u16, u64>>> = Arc::new(Mutex::new(HashMap::new()));
        let cfg2 = cfg.clone();
        wide_block_on(async {
            let mut handles = Vec::new();
            for (ci, ops) in per_client.iter().cloned().enumerate() {
                let db = db.clone();
                let cfg = cfg2.clone();
                let (stuck, slow, rollovers, max_ms, inflight, rww, last_off) = (stuck.clone(), slow.clone(), rollovers.clone(), max_ms.clone(), inflight.clone(), rollover_with_waiters.clone(), last_off.clone());
                handles.push(tokio::spawn(async move {
                    for (oi, op) in ops.iter().enumerate() {
                        let key_idx = op.stream % 2;
                        let sid = stream_name(op.stream);
                        let events = match op.kind {
                            0 => vec![(sid.clone(), ExpectedVersion::Any, 50, 1u8, GOOD_TS)],
                            1 => vec![(sid.clone(), ExpectedVersion::Any, 50_000, 2, GOOD_TS)],
                            2 => vec![(sid.clone(), ExpectedVersion::Any, 300, 1, GOOD_TS), (stream_name((op.stream + 2) % 4), ExpectedVersion::Any, 9000, 0, GOOD_TS)],
                            3 => vec![(sid.clone(), ExpectedVersion::Any, 20_000, 2, GOOD_TS), (sid.clone(), ExpectedVersion::Any, 10, 1, 1u64 << 63)],
                            _ => vec![(sid.clone(), ExpectedVersion::Exact(u64::MAX - 3), 10, 1, GOOD_TS)],
                        };
                        let tx = mk_tx(&cfg, key_idx, events, salt);
                        let bucket = cfg.bucket_of(tx.partition_id);
                        let started = Instant::now();
                        inflight.fetch_add(1, Ordering::SeqCst);
                        let fut = db.append_events(to_transaction(&tx));
                        tokio::pin!(fut);
                        let res = match tokio::time::timeout(bound, &mut fut).await {
                            Ok(r) => Some(r),
                            Err(_) => {
                                slow.fetch_add(1, Ordering::Relaxed);
                                // confirm: is it still pending after a further full bound?
                                match tokio::time::timeout(bound, &mut fut).await {
                                    Ok(r) => Some(r),
                                    Err(_) => None,
                                }
                            }
                        };
                        inflight.fetch_sub(1, Ordering::SeqCst);
                        let ms = started.elapsed().as_millis() as u64;
                        max_ms.fetch_max(ms, Ordering::Relaxed);
                        match res {
                            None => {
                                stuck.lock().unwrap().push(format!("client {ci} operation {oi} (kind {}, stream {sid}) did not complete within 2 x {} ms", op.kind, bound.as_millis()));
                                return;
                            }
                            Some(Ok(r)) => {
                                let mut lo = last_off.lock().unwrap();
                                let prev = lo.get(&bucket).copied().unwrap_or(0);
                                if r.offsets[0] < prev {
                                    rollovers.fetch_add(1, Ordering::Relaxed);
                                    if inflight.load(Ordering::SeqCst) >= 1 {
                                        rww.store(true, Ordering::Relaxed);
                                    }
                                }
                                lo.insert(bucket, r.offsets[0]);
                            }
                            Some(Err(_)) => {}
                        }
                    }
                }));
            }
            for h in handles {
                let _ = h.await;
            }
            if burst && stuck.lock().unwrap().is_empty() {
                // the quiet tail: small appends that are not synced inline depend on the periodic poll
                for oi in 0..8u32 {
                    tokio::time::sleep(Duration::from_millis(interval * 2 + 3)).await;
                    let tx = mk_tx(&cfg2, 0, vec![(stream_name(0), ExpectedVersion::Any, 20, 1u8, GOOD_TS)], salt ^ 0x7A11);
                    let fut = db.append_events(to_transaction(&tx));
                    tokio::pin!(fut);
                    let done = match tokio::time::timeout(bound, &mut fut).await {
                        Ok(_) => true,
                        Err(_) => tokio::time::timeout(bound, &mut fut).await.is_ok(),
                    };
                    if !done {
                        stuck.lock().unwrap().push(format!("small append {oi} of the quiet tail after a burst of {n_clients} concurrent clients on one writer thread did not complete within 2 x {} ms", bound.as_millis()));
                        break;
                    }
                }
            }
        });
        let stuck_list = stuck.lock().unwrap().clone();
        if stuck_list.is_empty() {
            wide_block_on(db.shutdown());
        }
        drop(db);
        let rolls = rollovers.load(Ordering::Relaxed);
        out.count("appends", per_client.iter().map(|c| c.len() as u64).sum());
        out.count("rollovers", rolls);
        out.count("appends_slower_than_bound_but_completed", slow.load(Ordering::Relaxed));
        out.count("max_latency_ms_sum", max_ms.load(Ordering::Relaxed));
        if rolls > 0 {
            out.class("rollover");
        }
        if interval > 0 {
            out.class("timed-sync");
        }
        if burst {
            out.class("burst-over-writer-queue");
        }
        out.nontrivial = burst || rollover_with_waiters.load(Ordering::Relaxed) && interval > 0 && n_clients >= 2;
        if let Some(first) = stuck_list.first() {
            out.fail("C20/append-never-completes", format!("{first} (sync interval {interval} ms, idle {idle} ms, max batch {}, min sync bytes {}, {} clients); {} append(s) stuck in total", cfg.max_batch, cfg.min_sync_bytes, n_clients, stuck_list.len()));
        }
        out.set_sample(json!({"config": cfg_json(&cfg), "clients": per_client.iter().map(|c| c.iter().map(|a| a.kind).collect::<Vec<_>>()).collect::<Vec<_>>(), "bound_ms": bound.as_millis() as u64, "max_latency_ms": max_ms.load(Ordering::Relaxed)}));
        out
    }
}

// ------------------------------------------------------------------------------------------
// C15

pub struct C15;

#[derive(Default)]
struct Acked {
    /// (partition, stream) -> ordered event ids
    streams: HashMap<(u16, String), Vec<Uuid>>,
    partitions: HashMap<u16, Vec<Uuid>>,
}

async fn c15_probe(db: &Database, acked: &Acked, pick: u64, context: &str) -> Option<(String, String)> {
    // every acknowledged append must be observable through every read API
    for ((pid, sid), ids) in &acked.streams {
        let want = ids.len() as u64 - 1;
        match db.get_stream_version(*pid, &StreamId::new(sid.clone()).unwrap()).await {
            Ok(Some(v)) if v.version >= want => {}
            Ok(other) => return Some(("stream-version-behind".into(), format!("[{context}] get_stream_version({sid:?}) = {:?} but version {want} was acknowledged", other.map(|v| v.version)))),
            Err(e) => return Some(("stream-version-error".into(), format!("[{context}] get_stream_version({sid:?}) failed: {e}"))),
        }
        match db.read_stream(*pid, StreamId::new(sid.clone()).unwrap(), 0, IterDirection::Forward).await {
            Ok(mut it) => {
                let mut got: Vec<Uuid> = Vec::new();
                loop {
                    match it.next_batch(16).await {
                        Ok(Some(b)) => {
                            for g in b {
                                for e in g {
                                    if &*e.stream_id == sid.as_str() {
                                        got.push(e.event_id);
                                    }
                                }
                            }
                        }
                        Ok(None) => break,
                        Err(e) => return Some(("stream-scan-error".into(), format!("[{context}] stream scan of {sid:?} failed: {e}"))),
                    }
                }
                if got.len() < ids.len() || got[..ids.len()] != ids[..] {
                    return Some(("stream-scan-loses-acknowledged".into(), format!("[{context}] stream scan of {sid:?} returned {} events, {} were acknowledged (first mismatch at index {})", got.len(), ids.len(), got.iter().zip(ids).position(|(a, b)| a != b).unwrap_or(got.len().min(ids.len())))));
                }
            }
            Err(e) => return Some(("stream-scan-error".into(), format!("[{context}] read_stream({sid:?}) failed: {e}"))),
        }
    }
    for (pid, ids) in &acked.partitions {
        // positions not published yet (another appender's acknowledgement in flight) are nil
        let Some(want) = ids.iter().rposition(|i| !i.is_nil()).map(|p| p as u64) else { continue };
        let known: Vec<(usize, Uuid)> = ids.iter().enumerate().filter(|(_, i)| !i.is_nil()).map(|(p, i)| (p, *i)).collect();
        match db.get_partition_sequence(*pid).await {
            Ok(Some(s)) if s.sequence >= want => {}
            Ok(other) => return Some(("partition-sequence-behind".into(), format!("[{context}] get_partition_sequence({pid}) = {:?} but sequence {want} was acknowledged", other.map(|s| s.sequence)))),
            Err(e) => return Some(("partition-sequence-error".into(), format!("[{context}] get_partition_sequence({pid}) failed: {e}"))),
        }
        // a few lookups by id
        for k in 0..3u64 {
            let id = known[((pick + k * 7919) % known.len() as u64) as usize].1;
            match db.read_event(*pid, id).await {
                Ok(Some(e)) if e.event_id == id => {}
                Ok(Some(e)) => return Some(("event-lookup-wrong".into(), format!("[{context}] lookup of {id} returned {}", e.event_id))),
                Ok(None) => return Some(("event-lookup-loses-acknowledged".into(), format!("[{context}] lookup of acknowledged event {id} (partition {pid}) returned nothing"))),
                Err(e) => return Some(("event-lookup-error".into(), format!("[{context}] lookup of acknowledged event {id} failed: {e}"))),
            }
        }
        match db.read_partition(*pid, 0, IterDirection::Forward).await {
            Ok(mut it) => {
                let mut got: Vec<Uuid> = Vec::new();
                loop {
                    match it.next_batch(16).await {
                        Ok(Some(b)) => {
                            for g in b {
                                for e in g {
                                    got.push(e.event_id);
                                }
                            }
                        }
                        Ok(None) => break,
                        Err(e) => return Some(("partition-scan-error".into(), format!("[{context}] partition scan of {pid} failed: {e}"))),
                    }
                }
                for (p, id) in &known {
                    if got.get(*p) != Some(id) {
                        return Some(("partition-scan-loses-acknowledged".into(), format!("[{context}] partition scan of {pid} returned {} events; acknowledged sequence {p} is {}", got.len(), if got.len() > *p { "a different event" } else { "missing" })));
                    }
                }
            }
            Err(e) => return Some(("partition-scan-error".into(), format!("[{context}] read_partition({pid}) failed: {e}"))),
        }
    }
    None
}

impl C15 {
    /// Part A: the harness owns the schedule inside `WriterSet::rollover` through pause hooks.
    fn window_case(&self, t: &mut Tape, _env: &Env) -> CaseOut {
        let mut out = CaseOut::default();
        out.class("rollover-window");
        let mut cfg = DbCfg::generate(t);
        cfg.segment_size = crate::dbx::MIN_SEGMENT;
        cfg.buckets = 1;
        cfg.writer_threads = 1;
        cfg.partitions = 1 + t.below(2) as u16;
        let salt = t.raw() as u64;
        let mut ops: Vec<(u8, usize, bool)> = Vec::new();
        while t.next_slot() {
            ops.push((t.below(4) as u8, *t.pick(&[40_000usize, 100, 3000, 25_000, 60_000]), t.chance(1, 4)));
        }
        let scratch = Scratch::new("c15a");
        let db = match cfg.open(scratch.path()) {
            Ok(db) => db,
            Err(e) => {
                out.fail("C15/open", format!("{e}"));
                return out;
            }
        };
        let acked: Arc<Mutex<Acked>> = Arc::new(Mutex::new(Acked::default()));
        let failures: Arc<Mutex<Vec<(String, String)>>> = Arc::new(Mutex::new(Vec::new()));
        let windows = Arc::new(AtomicU64::new(0));
        // the handler runs on the writer thread; reads need a runtime of their own
        let probe_rt = Arc::new(tokio::runtime::Builder::new_multi_thread().worker_threads(2).enable_all().build().unwrap());
        {
            let (db, acked, failures, windows, probe_rt) = (db.clone(), acked.clone(), failures.clone(), windows.clone(), probe_rt.clone());
            sierradb::verif::set_pause_handler(Some(Arc::new(move |point: &str| {
                // only the writer-side points of the rollover (the probes below run scans of their
                // own, which pass the reader-side point on this handler's runtime)
                if !point.starts_with("rollover:") || !failures.lock().unwrap().is_empty() {
                    return;
                }
                let n = windows.fetch_add(1, Ordering::Relaxed);
                let snapshot = {
                    let a = acked.lock().unwrap();
                    Acked { streams: a.streams.clone(), partitions: a.partitions.clone() }
                };
                let point = point.to_string();
                let r = probe_rt.block_on(c15_probe(&db, &snapshot, n.wrapping_mul(2654435761) ^ salt, &point));
                if let Some((sig, msg)) = r {
                    failures.lock().unwrap().push((format!("window/{}/{sig}", point.replace(':', "-")), msg));
                }
            })));
        }
        let cfg2 = cfg.clone();
        let mut rendered = Vec::new();
        wide_block_on(async {
            for (stream, len, multi) in &ops {
                if !failures.lock().unwrap().is_empty() {
                    break;
                }
                let key_idx = stream % 2;
                let sid = stream_name(*stream);
                let mut events = vec![(sid.clone(), ExpectedVersion::Any, *len, 2u8, GOOD_TS)];
                if *multi {
                    events.push((stream_name((stream + 2) % 4), ExpectedVersion::Any, 64, 1, GOOD_TS));
                }
                let tx = mk_tx(&cfg2, key_idx, events, salt);
                rendered.push(json!({"append": {"stream": sid, "payload": len, "events": tx.events.len()}}));
                match db.append_events(to_transaction(&tx)).await {
                    Ok(_) => {
                        let mut a = acked.lock().unwrap();
                        for e in &tx.events {
                            a.streams.entry((tx.partition_id, e.stream_id.to_string())).or_default().push(e.event_id);
                            a.partitions.entry(tx.partition_id).or_default().push(e.event_id);
                        }
                    }
                    Err(e) => {
                        failures.lock().unwrap().push(("window/append-failed".into(), format!("valid append failed: {e}")));
                        break;
                    }
                }
            }
            // and once more outside any window
            let snapshot = {
                let a = acked.lock().unwrap();
                Acked { streams: a.streams.clone(), partitions: a.partitions.clone() }
            };
            if failures.lock().unwrap().is_empty() {
                if let Some((sig, msg)) = c15_probe(&db, &snapshot, salt, "quiescent").await {
                    failures.lock().unwrap().push((format!("quiescent/{sig}"), msg));
                }
            }
        });
        sierradb::verif::set_pause_handler(None);
        // Part C: the reader-side window. A scan is parked (hook H2, point
        // `iter:after-live-segment-id`) after it has read which segment is live and before it looks
        // into the live indexes; meanwhile appends force a complete rollover; then the scan goes on.
        // Everything acknowledged before the scan started must still be returned, unharmed.
        let mut reader_windows = 0u64;
        if failures.lock().unwrap().is_empty() && !acked.lock().unwrap().streams.is_empty() {
            let parked = Arc::new((Mutex::new((false, false)), std::sync::Condvar::new())); // (parked, released)
            let armed = Arc::new(AtomicBool::new(true));
            {
                let (parked, armed) = (parked.clone(), armed.clone());
                sierradb::verif::set_pause_handler(Some(Arc::new(move |point: &str| {
                    if point != "iter:after-live-segment-id" || !armed.swap(false, Ordering::SeqCst) {
                        return;
                    }
                    let (m, cv) = &*parked;
                    let mut g = m.lock().unwrap();
                    g.0 = true;
                    cv.notify_all();
                    // bounded: a harness mistake must not hang the reader forever
                    let deadline = std::time::Instant::now() + Duration::from_secs(20);
                    while !g.1 && std::time::Instant::now() < deadline {
                        g = cv.wait_timeout(g, Duration::from_millis(50)).unwrap().0;
                    }
                })));
            }
            let snapshot = {
                let a = acked.lock().unwrap();
                Acked { streams: a.streams.clone(), partitions: a.partitions.clone() }
            };
            // two kinds of parked scan: the full probe from position 0, or a tail scan that starts
            // at the stream's current end (where the events appended meanwhile will live)
            let tail_target: Option<(u16, String, u64)> = if (ops.len() + cfg.partitions as usize) % 2 == 0 { snapshot.streams.iter().map(|((p, sid), ids)| (*p, sid.clone(), ids.len() as u64)).min() } else { None };
            let tail_result: Arc<Mutex<Vec<(u64, Uuid)>>> = Arc::new(Mutex::new(Vec::new()));
            let reader = {
                let (db, salt, tail_target, tail_result) = (db.clone(), salt, tail_target.clone(), tail_result.clone());
                probe_rt.spawn(async move {
                    match tail_target {
                        None => c15_probe(&db, &snapshot, salt ^ 0xC15C, "scan parked across a complete rollover").await,
                        Some((pid, sid, from)) => {
                            let mut it = match db.read_stream(pid, StreamId::new(sid.clone()).unwrap(), from, IterDirection::Forward).await {
                                Ok(it) => it,
                                Err(e) => return Some(("tail-scan-error".to_string(), format!("read_stream({sid:?}, from {from}) parked across a rollover failed: {e}"))),
                            };
                            loop {
                                match it.next_batch(16).await {
                                    Ok(Some(b)) => {
                                        for g in b {
                                            for e in g {
                                                if &*e.stream_id == sid.as_str() {
                                                    tail_result.lock().unwrap().push((e.stream_version, e.event_id));
                                                } else {
                                                    return Some(("tail-scan-foreign-event".to_string(), format!("tail scan of {sid:?} from {from} parked across a rollover returned an event of stream {:?}", &*e.stream_id)));
                                                }
                                            }
                                        }
                                    }
                                    Ok(None) => return None,
                                    Err(e) => return Some(("tail-scan-error".to_string(), format!("tail scan of {sid:?} from {from} parked across a rollover failed: {e}"))),
                                }
                            }
                        }
                    }
                })
            };
            // wait until the scan is parked (it may also never reach the point: version queries only)
            let is_parked = {
                let (m, cv) = &*parked;
                let g = m.lock().unwrap();
                let (g, _) = cv.wait_timeout_while(g, Duration::from_secs(3), |g| !g.0).unwrap();
                g.0
            };
            if is_parked {
                reader_windows = 1;
                // a complete rollover (or two) while the scan is parked
                wide_block_on(async {
                    for i in 0..4 {
                        let tx = mk_tx(&cfg2, 0, vec![(stream_name(0), ExpectedVersion::Any, 50_000, 2u8, GOOD_TS)], salt ^ (0xC0 + i));
                        rendered.push(json!({"append_while_a_scan_is_parked": {"stream": stream_name(0), "payload": 50_000}}));
                        match db.append_events(to_transaction(&tx)).await {
                            Ok(_) => {
                                let mut a = acked.lock().unwrap();
                                for e in &tx.events {
                                    a.streams.entry((tx.partition_id, e.stream_id.to_string())).or_default().push(e.event_id);
                                    a.partitions.entry(tx.partition_id).or_default().push(e.event_id);
                                }
                            }
                            Err(e) => {
                                failures.lock().unwrap().push(("reader-window/append-failed".into(), format!("valid append failed: {e}")));
                                break;
                            }
                        }
                    }
                });
            }
            {
                let (m, cv) = &*parked;
                m.lock().unwrap().1 = true;
                cv.notify_all();
            }
            armed.store(false, Ordering::SeqCst);
            match wide_block_on(async { tokio::time::timeout(Duration::from_secs(60), reader).await }) {
                Ok(Ok(Some((sig, msg)))) => failures.lock().unwrap().push((format!("reader-window/{sig}"), msg)),
                Ok(Ok(None)) => {}
                Ok(Err(e)) => failures.lock().unwrap().push(("reader-window/reader-panicked".into(), format!("the scanning task died: {e}"))),
                Err(_) => failures.lock().unwrap().push(("reader-window/reader-stuck".into(), "the scan did not finish within 60 s after it was released".into())),
            }
            sierradb::verif::set_pause_handler(None);
            // a tail scan may return nothing or any prefix of what was appended meanwhile - but
            // only those events, in order, at their versions
            if let Some((pid, sid, from)) = &tail_target {
                let all = acked.lock().unwrap().streams.get(&(*pid, sid.clone())).cloned().unwrap_or_default();
                let got = tail_result.lock().unwrap().clone();
                for (i, (version, id)) in got.iter().enumerate() {
                    let want_version = from + i as u64;
                    if *version != want_version || all.get(*version as usize) != Some(id) {
                        failures.lock().unwrap().push(("reader-window/tail-scan-wrong-event".into(), format!("tail scan of {sid:?} from {from}, parked across a rollover, returned event {id} as version {version} at position {i}; the stream holds {:?} there", all.get(want_version as usize))));
                        break;
                    }
                }
                out.class("tail-scan-parked-across-rollover");
            }
        }
        wide_block_on(db.shutdown());
        drop(db);
        let w = windows.load(Ordering::Relaxed);
        out.count("reads_inside_rollover_windows", w);
        out.count("scans_parked_across_a_rollover", reader_windows);
        if reader_windows > 0 {
            out.class("scan-parked-across-rollover");
        }
        out.nontrivial = w > 0;
        if let Some((sig, msg)) = failures.lock().unwrap().first().cloned() {
            out.fail(format!("C15/{sig}"), msg);
        }
        out.set_sample(json!({"kind": "rollover-window", "config": cfg_json(&cfg), "ops": rendered, "pause_points_hit": w}));
        out
    }

    /// Part B: real threads. Appenders publish what was acknowledged; readers take a snapshot of
    /// that *before* each round of reads and must observe at least the snapshot, and never less
    /// than they observed before.
    fn stress_case(&self, t: &mut Tape, _env: &Env) -> CaseOut {
        let mut out = CaseOut::default();
        out.class("stress");
        let mut cfg = DbCfg::generate(t);
        cfg.segment_size = crate::dbx::MIN_SEGMENT;
        let salt = t.raw() as u64;
        let n_app = 2 + t.usize_below(5);
        let n_readers = 2 + t.usize_below(3);
        let mut per_app: Vec<Vec<(u8, usize)>> = vec![Vec::new(); n_app];
        let mut i = 0;
        while t.next_slot() {
            // each appender owns its streams (stream index = appender, so versions are known)
            per_app[i % n_app].push((t.below(2) as u8, *t.pick(&[200usize, 20_000, 50, 45_000, 3000])));
            i += 1;
        }
        let scratch = Scratch::new("c15b");
        let db = match cfg.open(scratch.path()) {
            Ok(db) => db,
            Err(e) => {
                out.fail("C15/open", format!("{e}"));
                return out;
            }
        };
        let acked: Arc<Mutex<Acked>> = Arc::new(Mutex::new(Acked::default()));
        let failures: Arc<Mutex<Vec<(String, String)>>> = Arc::new(Mutex::new(Vec::new()));
        let stop = Arc::new(AtomicBool::new(false));
        let rounds = Arc::new(AtomicU64::new(0));
        let rollovers = Arc::new(AtomicU64::new(0));
        let cfg2 = cfg.clone();
        wide_block_on(async {
            let mut readers = Vec::new();
            for r in 0..n_readers {
                let (db, acked, failures, stop, rounds) = (db.clone(), acked.clone(), failures.clone(), stop.clone(), rounds.clone());
                readers.push(tokio::spawn(async move {
                    let mut high_streams: HashMap<(u16, String), u64> = HashMap::new();
                    let mut high_parts: HashMap<u16, u64> = HashMap::new();
                    let mut n = 0u64;
                    loop {
                        let stopping = stop.load(Ordering::SeqCst);
                        let snapshot = {
                            let a = acked.lock().unwrap();
                            Acked { streams: a.streams.clone(), partitions: a.partitions.clone() }
                        };
                        n += 1;
                        if let Some((sig, msg)) = c15_probe(&db, &snapshot, n * 31 + r as u64, "after acknowledgement").await {
                            failures.lock().unwrap().push((format!("stress/{sig}"), msg));
                            return;
                        }
                        // monotone: never less than this reader saw before
                        for (k, _) in &snapshot.streams {
                            if let Ok(Some(v)) = db.get_stream_version(k.0, &StreamId::new(k.1.clone()).unwrap()).await {
                                let h = high_streams.entry(k.clone()).or_insert(0);
                                if v.version < *h {
                                    failures.lock().unwrap().push(("stress/stream-version-went-backwards".into(), format!("reader {r}: version of {:?} went from {} to {}", k.1, *h, v.version)));
                                    return;
                                }
                                *h = v.version;
                            }
                        }
                        for (p, _) in &snapshot.partitions {
                            if let Ok(Some(s)) = db.get_partition_sequence(*p).await {
                                let h = high_parts.entry(*p).or_insert(0);
                                if s.sequence < *h {
                                    failures.lock().unwrap().push(("stress/partition-sequence-went-backwards".into(), format!("reader {r}: sequence of partition {p} went from {} to {}", *h, s.sequence)));
                                    return;
                                }
                                *h = s.sequence;
                            }
                        }
                        rounds.fetch_add(1, Ordering::Relaxed);
                        if stopping {
                            return;
                        }
                        tokio::task::yield_now().await;
                    }
                }));
            }
            let mut apps = Vec::new();
            for (ai, ops) in per_app.iter().cloned().enumerate() {
                let (db, acked, failures, rollovers, cfg) = (db.clone(), acked.clone(), failures.clone(), rollovers.clone(), cfg2.clone());
                apps.push(tokio::spawn(async move {
                    let mut last_off = 0u64;
                    for (which, len) in ops {
                        if !failures.lock().unwrap().is_empty() {
                            return;
                        }
                        // appender `ai` owns streams "w<ai>-0" and "w<ai>-1" on key ai
                        let key_idx = (ai % 4) as u8;
                        let sid = format!("w{ai}-{which}");
                        let tx = mk_tx(&cfg, key_idx, vec![(sid, ExpectedVersion::Any, len, 2, GOOD_TS)], salt);
                        match db.append_events(to_transaction(&tx)).await {
                            Ok(r) => {
                                if r.offsets[0] < last_off {
                                    rollovers.fetch_add(1, Ordering::Relaxed);
                                }
                                last_off = r.offsets[0];
                                // partitions are shared between appenders: publish under the lock in
                                // sequence order (the lock serialises publication, the sequence tells
                                // the position)
                                let mut a = acked.lock().unwrap();
                                for e in &tx.events {
                                    a.streams.entry((tx.partition_id, e.stream_id.to_string())).or_default().push(e.event_id);
                                }
                                let p = a.partitions.entry(tx.partition_id).or_default();
                                let seq = r.first_partition_sequence as usize;
                                if p.len() <= seq {
                                    p.resize(seq + 1, Uuid::nil());
                                }
                                p[seq] = tx.events[0].event_id;
                            }
                            Err(e) => {
                                failures.lock().unwrap().push(("stress/append-failed".into(), format!("valid append failed: {e}")));
                                return;
                            }
                        }
                    }
                }));
            }
            for a in apps {
                let _ = a.await;
            }
            stop.store(true, Ordering::SeqCst);
            for r in readers {
                let _ = r.await;
            }
        });
        wide_block_on(db.shutdown());
        drop(db);
        let rolls = rollovers.load(Ordering::Relaxed);
        out.count("reader_rounds", rounds.load(Ordering::Relaxed));
        out.count("rollovers", rolls);
        out.nontrivial = rolls > 0 && rounds.load(Ordering::Relaxed) > n_readers as u64;
        if let Some((sig, msg)) = failures.lock().unwrap().first().cloned() {
            out.fail(format!("C15/{sig}"), msg);
        }
        out.set_sample(json!({"kind": "stress", "config": cfg_json(&cfg), "appenders": per_app.iter().map(|v| v.iter().map(|(w, l)| json!([w, l])).collect::<Vec<_>>()).collect::<Vec<_>>(), "readers": n_readers}));
        out
    }
}

impl Check for C15 {
    fn id(&self) -> &'static str {
        "C15"
    }
    fn level(&self) -> &'static str {
        "exploration"
    }
    fn rule(&self) -> String {
        "two generated case kinds. rollover-window (schedule owned by the harness): a history of 4-30 appends with payloads up to 60 KiB into 128 KiB segments; at each pause point inside WriterSet::rollover (hook H2: after the live indexes were swapped, after the sealed segment was installed in the reader pool, at the end) the harness, holding the writer thread, runs stream-version and partition-sequence queries, event lookups, and full stream and partition scans for everything acknowledged so far: each must still contain every acknowledged event/version. stress (real threads): 2-6 appender tasks over the generated bucket/writer-thread configuration publish each acknowledgement; 2-4 reader tasks snapshot the published set before each round of the same reads and must observe at least the snapshot (read-after-ack) and never less than they observed in an earlier round (monotone). Non-trivial: reads executed inside a rollover window / reader rounds overlapping at least one rollover.".into()
    }
    fn assumptions(&self) -> Vec<String> {
        vec!["partition sequences in the stress kind are published per first event of single-event appends; gaps left by not-yet-published neighbours are skipped by the prefix comparison only after publication".into(), "the stress kind samples interleavings; only the rollover window is owned".into()]
    }
    fn plan(&self, tier: Tier) -> Plan {
        let quick = tier == Tier::Quick;
        Plan { cases: if quick { 400 } else { 4000 }, max_tape: 6, min_slots: 5, max_slots: 60, shard_cases: 8, shard_timeout_s: if quick { 300 } else { 900 }, max_shrink_iters: 100, ..Plan::default() }
    }
    fn abort_is_violation(&self) -> bool {
        true
    }
    fn run_case(&self, t: &mut Tape, env: &Env) -> CaseOut {
        if t.weighted(&[3, 2]) == 0 { self.window_case(t, env) } else { self.stress_case(t, env) }
    }
}

pub fn _unused(_: Value) {}
