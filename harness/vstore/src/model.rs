//! Reference event-store model, written from the property statements and API docs.

use std::collections::{BTreeMap, HashMap};

use sierradb::database::{ExpectedVersion, NewEvent};
use uuid::Uuid;

pub const EVENT_HEADER_SIZE: usize = 93;
pub const COMMIT_SIZE: usize = 37;
pub const SEGMENT_HEADER_SIZE: usize = 48;

#[derive(Clone, Debug, PartialEq, Eq)]
pub struct MEvent {
    pub event_id: Uuid,
    pub tx: usize,
    pub partition_key: Uuid,
    pub partition_id: u16,
    pub seq: u64,
    pub stream_id: String,
    pub version: u64,
    pub name: String,
    pub timestamp: u64,
    pub metadata: Vec<u8>,
    pub payload: Vec<u8>,
}

#[derive(Clone, Debug)]
pub struct MTx {
    pub id: Uuid,
    pub partition_id: u16,
    pub events: Vec<usize>,
    pub confirmation: u8,
}

#[derive(Clone, Debug)]
pub struct MStream {
    pub key: Uuid,
    pub events: Vec<usize>,
}

#[derive(Clone, Debug)]
pub struct TxInput {
    pub key: Uuid,
    pub partition_id: u16,
    pub tx_id: Uuid,
    pub events: Vec<NewEvent>,
    pub expected_seq: ExpectedVersion,
    pub confirmation: u8,
}

#[derive(Clone, Debug, PartialEq, Eq)]
pub enum Reject {
    WrongVersion { event: usize },
    KeyMismatch { event: usize },
    WrongSequence,
    BadTimestamp { event: usize },
    NameTooLong { event: usize },
    TooLarge,
}

impl Reject {
    /// Does the writer notice only after it has already written earlier events of the tx?
    pub fn mid_write_after_first(&self) -> bool {
        matches!(self, Reject::BadTimestamp { event } | Reject::NameTooLong { event } if *event > 0)
    }
}

#[derive(Clone, Debug)]
pub struct Accept {
    pub first_seq: u64,
    pub last_seq: u64,
    /// assigned (stream version) per event
    pub versions: Vec<u64>,
}

#[derive(Clone, Debug, Default)]
pub struct Model {
    pub buckets: u16,
    pub events: Vec<MEvent>,
    pub txs: Vec<MTx>,
    pub partitions: BTreeMap<u16, Vec<usize>>,
    pub streams: BTreeMap<(u16, String), MStream>,
    pub by_id: HashMap<Uuid, usize>,
}

pub fn estimated_size(events: &[NewEvent]) -> usize {
    events.iter().map(|e| EVENT_HEADER_SIZE + e.stream_id.len() + e.event_name.len() + e.metadata.len() + e.payload.len()).sum::<usize>() + if events.len() == 1 { 0 } else { COMMIT_SIZE }
}

fn satisfied(e: ExpectedVersion, cur: Option<u64>) -> bool {
    match e {
        ExpectedVersion::Any => true,
        ExpectedVersion::Exists => cur.is_some(),
        ExpectedVersion::Empty => cur.is_none(),
        ExpectedVersion::Exact(v) => cur == Some(v),
    }
}

impl Model {
    pub fn new(buckets: u16) -> Model {
        Model { buckets, ..Default::default() }
    }

    pub fn bucket_of(&self, partition_id: u16) -> u16 {
        partition_id % self.buckets
    }

    pub fn stream(&self, partition_id: u16, stream_id: &str) -> Option<&MStream> {
        self.streams.get(&(self.bucket_of(partition_id), stream_id.to_string()))
    }

    pub fn stream_events(&self, partition_id: u16, stream_id: &str) -> Vec<&MEvent> {
        self.stream(partition_id, stream_id).map(|s| s.events.iter().map(|i| &self.events[*i]).collect()).unwrap_or_default()
    }

    pub fn partition_events(&self, partition_id: u16) -> Vec<&MEvent> {
        self.partitions.get(&partition_id).map(|v| v.iter().map(|i| &self.events[*i]).collect()).unwrap_or_default()
    }

    pub fn stream_version(&self, partition_id: u16, stream_id: &str) -> Option<(Uuid, u64)> {
        self.stream(partition_id, stream_id).map(|s| (s.key, s.events.len() as u64 - 1))
    }

    pub fn partition_sequence(&self, partition_id: u16) -> Option<u64> {
        self.partitions.get(&partition_id).filter(|v| !v.is_empty()).map(|v| v.len() as u64 - 1)
    }

    /// Decide an append. The *kind* of rejection is informational: the oracle only compares
    /// accept/reject (which error the implementation reports first is not modelled).
    pub fn decide(&self, tx: &TxInput, segment_size: usize) -> Result<Accept, Reject> {
        let bucket = self.bucket_of(tx.partition_id);
        // version conditions, including earlier events of the same transaction
        let mut in_tx: HashMap<&str, u64> = HashMap::new(); // stream -> next version
        let mut versions = Vec::new();
        for (i, e) in tx.events.iter().enumerate() {
            let sid: &str = &e.stream_id;
            let cur: Option<u64> = match in_tx.get(sid) {
                Some(next) => Some(next - 1),
                None => match self.streams.get(&(bucket, sid.to_string())) {
                    Some(s) => {
                        if s.key != tx.key {
                            return Err(Reject::KeyMismatch { event: i });
                        }
                        Some(s.events.len() as u64 - 1)
                    }
                    None => None,
                },
            };
            if !satisfied(e.stream_version, cur) {
                return Err(Reject::WrongVersion { event: i });
            }
            let assigned = cur.map(|c| c + 1).unwrap_or(0);
            versions.push(assigned);
            in_tx.insert(sid, assigned + 1);
        }
        if estimated_size(&tx.events) + SEGMENT_HEADER_SIZE > segment_size {
            return Err(Reject::TooLarge);
        }
        let cur_seq = self.partition_sequence(tx.partition_id);
        if !satisfied(tx.expected_seq, cur_seq) {
            return Err(Reject::WrongSequence);
        }
        for (i, e) in tx.events.iter().enumerate() {
            if e.timestamp >> 63 == 1 {
                return Err(Reject::BadTimestamp { event: i });
            }
            if e.event_name.len() > 255 {
                return Err(Reject::NameTooLong { event: i });
            }
        }
        let first_seq = cur_seq.map(|c| c + 1).unwrap_or(0);
        Ok(Accept { first_seq, last_seq: first_seq + tx.events.len() as u64 - 1, versions })
    }

    pub fn apply(&mut self, tx: &TxInput, acc: &Accept) -> usize {
        let bucket = self.bucket_of(tx.partition_id);
        let tx_idx = self.txs.len();
        let mut idxs = Vec::new();
        for (i, e) in tx.events.iter().enumerate() {
            let idx = self.events.len();
            self.events.push(MEvent {
                event_id: e.event_id,
                tx: tx_idx,
                partition_key: tx.key,
                partition_id: tx.partition_id,
                seq: acc.first_seq + i as u64,
                stream_id: e.stream_id.to_string(),
                version: acc.versions[i],
                name: e.event_name.clone(),
                timestamp: e.timestamp,
                metadata: e.metadata.clone(),
                payload: e.payload.clone(),
            });
            self.by_id.insert(e.event_id, idx);
            self.partitions.entry(tx.partition_id).or_default().push(idx);
            self.streams.entry((bucket, e.stream_id.to_string())).or_insert_with(|| MStream { key: tx.key, events: Vec::new() }).events.push(idx);
            idxs.push(idx);
        }
        self.txs.push(MTx { id: tx.tx_id, partition_id: tx.partition_id, events: idxs, confirmation: tx.confirmation });
        tx_idx
    }

    pub fn tx_events(&self, tx: usize) -> Vec<&MEvent> {
        self.txs[tx].events.iter().map(|i| &self.events[*i]).collect()
    }
}
