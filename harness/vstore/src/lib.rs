//! Checks for the storage crates (seglog, sierradb, sierradb-protocol).

mod conc;
mod crash;
mod dbx;
mod model;
mod pure;
mod seglogx;
mod store;
mod storechecks;

use vlib::Check;

pub fn checks() -> Vec<&'static dyn Check> {
    vec![&pure::C23, &pure::C25, &seglogx::C17, &seglogx::C18, &storechecks::C01, &storechecks::C02, &storechecks::C03, &storechecks::C19, &crash::C04, &crash::C05, &crash::C06, &conc::C15, &conc::C16, &conc::C20]
}
