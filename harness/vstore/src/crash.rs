//! C05 (crash at any byte of the unsynced tail), C06 (crash while sealed index files are being
//! written) and C04 (all-or-nothing: histories, crash cuts, concurrent reader).

use std::collections::{HashMap, HashSet};
use std::os::unix::fs::FileExt;
use std::path::{Path, PathBuf};
use std::sync::Arc;
use std::sync::atomic::{AtomicBool, Ordering};

use serde_json::{Value, json};
use sierradb::bucket::segment::CommittedEvents;
use sierradb::database::Transaction;
use sierradb::{IterDirection, StreamId};
use uuid::Uuid;
use vlib::{CaseOut, Check, Env, Plan, Scratch, Tape, Tier, copy_dir, expand_bytes};

use crate::dbx::{DbCfg, block_on};
use crate::model::{Model, TxInput};
use crate::store::{EvGen, ExpectKind, GenWeights, Interp, N_KEYS, Op, TxGen, cfg_json, gen_ops, gen_tx};

// ------------------------------------------------------------------------------------------
// shared crash-splice construction

pub struct Tail {
    pub bucket: u16,
    pub live_path_rel: PathBuf,
    pub w0: u64,
    pub bytes: Vec<u8>,
    /// what the base state has on disk in the same region (zeros, or leftovers of a failed
    /// append beyond its truncation marker)
    pub s0_region: Vec<u8>,
    /// (relative start, len, tx index in `txs`, Some(event index) | None = commit record)
    pub records: Vec<(usize, usize, usize, Option<usize>)>,
    pub txs: Vec<TxInput>,
}

pub struct Base {
    pub cfg: DbCfg,
    pub dir: Scratch,
    pub model: Model,
    pub next_id: u64,
    pub rendered: Vec<Value>,
    pub rollovers: u64,
}

fn live_segment_rel(dir: &Path, bucket: u16) -> Option<PathBuf> {
    let seg_dir = dir.join("buckets").join(format!("{bucket:05}")).join("segments");
    let mut best: Option<u32> = None;
    for e in std::fs::read_dir(&seg_dir).ok()?.flatten() {
        if let Some(id) = e.file_name().to_str().and_then(|s| s.parse::<u32>().ok()) {
            if e.path().join("data.evts").exists() {
                best = Some(best.map(|b| b.max(id)).unwrap_or(id));
            }
        }
    }
    best.map(|id| PathBuf::from("buckets").join(format!("{bucket:05}")).join("segments").join(format!("{id:010}")).join("data.evts"))
}

/// Run a generated base history to a quiescent, acknowledged state and shut down.
pub fn run_base(t: &mut Tape, env: &Env, out: &mut CaseOut, report_as: &'static str, w: &GenWeights, cfg: DbCfg, ops: &[Op]) -> Option<Base> {
    let _ = t;
    let dir = Scratch::new("base");
    let mut it = Interp::new(cfg.clone(), dir.path(), report_as, out, env);
    it.report_as = Some(report_as);
    it.sig_prefix = "base-history".into();
    let _ = w;
    block_on(async {
        if it.open() {
            it.run(ops).await;
        }
        it.close().await;
    });
    if it.stopped {
        return None;
    }
    let model = it.model.clone();
    let next_id = it.next_id;
    let rendered = std::mem::take(&mut it.rendered);
    let rollovers = it.stats.rollovers;
    drop(it);
    Some(Base { cfg, dir, model, next_id, rendered, rollovers })
}

/// In a copy of the base directory, append the tail transactions with the real code and read
/// back the exact bytes they added to the live segment of their bucket.
pub fn make_tail(base: &Base, gens: &[TxGen], env: &Env, out: &mut CaseOut, report_as: &'static str) -> Result<Option<Tail>, ()> {
    let d1 = Scratch::new("tail");
    copy_dir(base.dir.path(), d1.path()).unwrap();
    let mut scratch_out = CaseOut::default();
    let mut it = Interp::new(base.cfg.clone(), d1.path(), report_as, &mut scratch_out, env);
    it.report_as = Some(report_as);
    it.sig_prefix = "tail-append".into();
    it.model = base.model.clone();
    it.next_id = base.next_id;
    let mut txs: Vec<TxInput> = Vec::new();
    let mut offsets: Vec<Vec<u64>> = Vec::new();
    let mut bucket = 0u16;
    let before_live;
    {
        let (_, pid) = it.key_for(gens[0].key_override.unwrap_or(0));
        bucket = it.cfg.bucket_of(pid).max(bucket);
        before_live = live_segment_rel(base.dir.path(), bucket);
    }
    block_on(async {
        if !it.open() {
            return;
        }
        for g in gens {
            let tx = it.concretize(g);
            if it.model.decide(&tx, it.cfg.segment_size).is_err() {
                continue; // only valid transactions form the tail
            }
            let res = it.db().append_events(Interp::to_transaction(&tx)).await;
            let idx = it.settle_append(&tx, &res);
            if it.stopped {
                break;
            }
            if let (Some(_), Ok(r)) = (idx, &res) {
                offsets.push(r.offsets.to_vec());
                txs.push(tx);
            }
        }
        it.close().await;
    });
    let stopped = it.stopped;
    drop(it);
    if stopped {
        out.failures.extend(scratch_out.failures);
        out.foreign.extend(scratch_out.foreign);
        return Err(());
    }
    if txs.is_empty() {
        return Ok(None);
    }
    let after_live = live_segment_rel(d1.path(), bucket);
    if before_live != after_live || after_live.is_none() {
        return Ok(None); // the tail rolled over: not the shape this construction covers
    }
    let rel = after_live.unwrap();
    let file = std::fs::read(d1.path().join(&rel)).unwrap();
    let w0 = offsets[0][0] as usize;
    // parse the records the tail added
    let mut records = Vec::new();
    let mut pos = w0;
    for (ti, tx) in txs.iter().enumerate() {
        let n = tx.events.len();
        for ei in 0..n {
            let (_, _, len) = match seglog::parse::parse_record::<1>(&file, pos) {
                Ok(x) => x,
                Err(_) => return Ok(None),
            };
            if offsets[ti][ei] as usize != pos {
                return Ok(None);
            }
            records.push((pos - w0, len, ti, Some(ei)));
            pos += len;
        }
        if n > 1 {
            let (_, _, len) = match seglog::parse::parse_record::<1>(&file, pos) {
                Ok(x) => x,
                Err(_) => return Ok(None),
            };
            records.push((pos - w0, len, ti, None));
            pos += len;
        }
    }
    let s0_file = std::fs::read(base.dir.path().join(&rel)).unwrap();
    let s0_region = s0_file[w0..pos].to_vec();
    Ok(Some(Tail { bucket, live_path_rel: rel, w0: w0 as u64, bytes: file[w0..pos].to_vec(), s0_region, records, txs }))
}

#[derive(Clone, Debug, PartialEq)]
pub struct CutInfo {
    pub k: usize,
    /// number of tail transactions entirely inside the cut
    pub complete_txs: usize,
    /// complete event records of a transaction whose commit is not (entirely) inside the cut
    pub orphans: usize,
    pub partial_record: bool,
    pub class: &'static str,
}

/// A record counts as on disk once every byte of it that differs from what the base state
/// already holds there is inside the cut (the file is pre-allocated: mostly zeros, possibly
/// leftovers of an earlier failed append).
fn eff_end(tail: &Tail, r: &(usize, usize, usize, Option<usize>)) -> usize {
    let mut end = r.0 + r.1;
    while end > r.0 && tail.bytes[end - 1] == tail.s0_region[end - 1] {
        end -= 1;
    }
    end
}

pub fn classify_cut(tail: &Tail, k: usize) -> CutInfo {
    let mut complete_txs = 0;
    for (ti, _) in tail.txs.iter().enumerate() {
        let all_inside = tail.records.iter().filter(|r| r.2 == ti).all(|r| eff_end(tail, r) <= k);
        if all_inside {
            complete_txs = ti + 1;
        } else {
            break;
        }
    }
    let mut orphans = 0;
    let mut partial = false;
    for r in &tail.records {
        if r.2 < complete_txs {
            continue;
        }
        if eff_end(tail, r) <= k {
            if r.3.is_some() {
                orphans += 1;
            }
        } else if r.0 < k {
            partial = true;
        }
    }
    let class = match (orphans > 0, partial) {
        (false, false) => "cut-at-transaction-boundary",
        (false, true) => "cut-inside-record",
        (true, false) => "cut-after-events-before-commit",
        (true, true) => "cut-after-events-inside-next-record",
    };
    CutInfo { k, complete_txs, orphans, partial_record: partial, class }
}

pub fn choose_cuts(tail: &Tail, seed: u32, max_cuts: usize, every_byte_below: usize) -> Vec<usize> {
    let total = tail.bytes.len();
    let mut cuts: Vec<usize> = Vec::new();
    if total <= every_byte_below {
        cuts.extend(0..=total);
    } else {
        cuts.push(0);
        for r in &tail.records {
            for d in [-1i64, 0, 1, 8, 9] {
                let p = r.0 as i64 + d;
                if p >= 0 && p as usize <= total {
                    cuts.push(p as usize);
                }
            }
            let end = r.0 + r.1;
            for d in [-1i64, 0] {
                let p = end as i64 + d;
                if p >= 0 && p as usize <= total {
                    cuts.push(p as usize);
                }
            }
        }
        let rnd = expand_bytes(seed as u64, 8 * 16);
        for c in rnd.chunks(8) {
            cuts.push(u64::from_le_bytes(c.try_into().unwrap()) as usize % (total + 1));
        }
    }
    cuts.sort();
    cuts.dedup();
    if cuts.len() > max_cuts {
        // keep the structurally interesting ones (boundaries) and sample the rest
        let mut keep: Vec<usize> = Vec::new();
        let boundaries: HashSet<usize> = tail.records.iter().flat_map(|r| [r.0, r.0 + r.1, r.0 + 1, (r.0 + r.1).saturating_sub(1)]).collect();
        for c in &cuts {
            if boundaries.contains(c) {
                keep.push(*c);
            }
        }
        keep.truncate(max_cuts * 2 / 3);
        let rnd = expand_bytes(seed as u64 ^ 0x77, 8 * max_cuts);
        let mut i = 0;
        while keep.len() < max_cuts && i < max_cuts {
            let c = cuts[u64::from_le_bytes(rnd[i * 8..i * 8 + 8].try_into().unwrap()) as usize % cuts.len()];
            if !keep.contains(&c) {
                keep.push(c);
            }
            i += 1;
        }
        keep.sort();
        cuts = keep;
    }
    cuts
}

/// Build the on-disk state "S0 + first k bytes of the tail" in a fresh directory.
pub fn splice(base: &Base, tail: &Tail, k: usize) -> Scratch {
    let d = Scratch::new("cut");
    copy_dir(base.dir.path(), d.path()).unwrap();
    let f = std::fs::OpenOptions::new().write(true).open(d.path().join(&tail.live_path_rel)).unwrap();
    f.write_all_at(&tail.bytes[..k], tail.w0).unwrap();
    d
}

pub fn model_after(base: &Base, tail: &Tail, complete: usize, seg: usize) -> Model {
    let mut m = base.model.clone();
    for tx in &tail.txs[..complete] {
        let acc = m.decide(tx, seg).expect("tail transactions were valid");
        m.apply(tx, &acc);
    }
    m
}

fn small_tx(stream: u8, n: usize, seed: u32, key: u8) -> TxGen {
    TxGen {
        key_override: Some(key),
        events: (0..n)
            .map(|i| EvGen { stream: stream + (i as u8 % 2), expect: ExpectKind::Any, payload_len: 40 + (seed as usize % 700) + i * 13, payload_kind: (seed % 3) as u8, seed: seed.wrapping_add(i as u32), meta_len: (seed as usize >> 4) % 30, name_len: 3 + i, ts: 0 })
            .collect(),
        seq_expect: ExpectKind::Any,
        confirmation: 0,
    }
}

fn gen_tail(t: &mut Tape) -> Vec<TxGen> {
    let key = t.below(N_KEYS as u64) as u8;
    let n = 1 + t.usize_below(3);
    (0..n)
        .map(|_| {
            let events = match t.weighted(&[2, 3, 2, 1]) {
                0 => 1,
                1 => 2,
                2 => 3,
                _ => 4,
            };
            let stream = key + (t.below(2) as u8) * N_KEYS; // streams whose home key is `key`: key, key+4
            small_tx(stream.min(crate::store::N_STREAMS - 2), events, t.raw(), key)
        })
        .collect()
}

fn base_weights() -> GenWeights {
    let mut w = GenWeights::base();
    w.read_event = 0;
    w.read_tx = 0;
    w.scan_stream = 0;
    w.scan_partition = 0;
    w.versions = 0;
    w.reopen = 1;
    w.big_payload = 4;
    w.batch = 2;
    w
}

// ------------------------------------------------------------------------------------------
// C05

pub struct C05;

impl Check for C05 {
    fn id(&self) -> &'static str {
        "C05"
    }
    fn level(&self) -> &'static str {
        "fault_enumeration"
    }
    fn rule(&self) -> String {
        "case = configuration + base history of 2-10 appends/batches (all acknowledged, clean shutdown = state S0) + a tail of 1-3 valid transactions (1-4 events, 40 B-1 KiB payloads) appended by the real writer in a copy; the exact bytes [W0,W1) they added to the live segment are read back. Crash states = S0 with the first k tail bytes spliced in, for k = every record boundary -1/0/+1, 8 and 9 bytes into each record (head only), the event/commit boundary, 16 sampled interior cuts (every byte when the tail is under 1 KiB in the thorough tier). Oracle per cut: open succeeds; database == model(S0 + tail transactions whose last record lies entirely inside the cut) under the full audit (every event by id, every stream and partition forward and reverse, versions and sequences); two further appends (one multi-event) get exactly the next sequences/versions; a second reopen passes the same audit. Non-trivial: cut after at least one complete event of a transaction whose commit record is missing. evaluations counts cases; counters give cuts.".into()
    }
    fn assumptions(&self) -> Vec<String> {
        vec![
            "a process crash keeps a prefix of what the writer passed to write(2); reordering of unsynced pages (power loss) is outside the property's quantifier".into(),
            "the tail is appended by one writer without a rollover (cases whose tail rolls over are counted in class tail-rolled-over and not cut)".into(),
            "index files of the live segment are left as the base shutdown left them (they are rebuilt on open)".into(),
        ]
    }
    fn plan(&self, tier: Tier) -> Plan {
        let quick = tier == Tier::Quick;
        Plan { cases: if quick { 160 } else { 1600 }, max_tape: 230, min_slots: 3, max_slots: 12, shard_cases: 2, shard_timeout_s: if quick { 300 } else { 900 }, max_shrink_iters: 60, ..Plan::default() }
    }
    fn abort_is_violation(&self) -> bool {
        true
    }
    fn run_case(&self, t: &mut Tape, env: &Env) -> CaseOut {
        let mut out = CaseOut::default();
        let cfg = DbCfg::generate(t);
        let tail_gens = gen_tail(t);
        let cut_seed = t.raw();
        let w = base_weights();
        let ops = gen_ops(t, &w);
        let max_cuts = if env.tier == Tier::Quick { 26 } else { 90 };
        let every_byte_below = if env.tier == Tier::Quick { 0 } else { 1024 };
        let Some(base) = run_base(t, env, &mut out, "C05", &w, cfg.clone(), &ops) else {
            out.set_sample(json!({"config": cfg_json(&cfg), "note": "base history stopped"}));
            return out;
        };
        let tail = match make_tail(&base, &tail_gens, env, &mut out, "C05") {
            Ok(Some(t)) => t,
            Ok(None) => {
                out.class("tail-rolled-over-or-empty");
                out.set_sample(json!({"config": cfg_json(&cfg), "base": base.rendered, "note": "tail empty or rolled over"}));
                return out;
            }
            Err(()) => {
                out.set_sample(json!({"config": cfg_json(&cfg), "base": base.rendered, "note": "tail append diverged"}));
                return out;
            }
        };
        let cuts = choose_cuts(&tail, cut_seed, max_cuts, every_byte_below);
        let avoid_orphans = env.avoid("C05/cut-after-events-before-commit/C01-after-crash/partition-scan-error");
        let mut cut_log = Vec::new();
        let mut orphan_cuts = 0u64;
        for k in &cuts {
            let info = classify_cut(&tail, *k);
            if info.orphans > 0 {
                if avoid_orphans {
                    out.count("excluded_known", 1);
                    continue;
                }
                orphan_cuts += 1;
            }
            out.count("cuts", 1);
            out.count(&format!("cuts_{}", info.class), 1);
            let d = splice(&base, &tail, *k);
            let model = model_after(&base, &tail, info.complete_txs, cfg.segment_size);
            let mut it = Interp::new(cfg.clone(), d.path(), "C05", &mut out, env);
            it.report_as = Some("C05");
            it.sig_prefix = info.class.to_string();
            it.model = model;
            it.next_id = base.next_id + 1000;
            let key = tail_gens[0].key_override.unwrap_or(0);
            block_on(async {
                match it.cfg.open(&it.dir) {
                    Ok(db) => it.db = Some(db),
                    Err(e) => {
                        if vlib::is_resource_exhaustion(&format!("{e}")) {
                            it.out.class("inconclusive-resource-exhaustion");
                            it.out.count("inconclusive_resource_exhaustion", 1);
                            it.stopped = true;
                            return;
                        }
                        it.fail("C05", "open-failed", format!("reopening after the crash failed: {e}"));
                        return;
                    }
                }
                it.audit("after-crash").await;
                if it.stopped {
                    return;
                }
                // further appends continue sequences and versions with no gap and no reuse
                let g1 = small_tx(key, 1, cut_seed ^ 1, key);
                let g2 = small_tx(key, 3, cut_seed ^ 2, key);
                it.do_append(&g1).await;
                if !it.stopped {
                    it.do_append(&g2).await;
                }
                if !it.stopped {
                    it.reopen().await;
                }
                if !it.stopped {
                    it.audit("after-second-reopen").await;
                }
                it.close().await;
            });
            let stopped = it.stopped;
            if stopped {
                block_on(it.close());
            }
            drop(it);
            cut_log.push(json!({"k": k, "class": info.class, "complete_txs": info.complete_txs, "orphan_events": info.orphans}));
            if stopped {
                break;
            }
        }
        out.nontrivial = orphan_cuts > 0;
        if base.rollovers > 0 {
            out.class("base-with-rollover");
        }
        if tail.txs.iter().any(|t| t.events.len() > 1) {
            out.class("tail-has-multi-event-tx");
        }
        out.set_sample(json!({"config": cfg_json(&cfg), "base": base.rendered, "tail": tail.txs.iter().map(Interp::render_tx).collect::<Vec<_>>(), "tail_bytes": tail.bytes.len(), "records": tail.records.iter().map(|r| json!([r.0, r.1, r.2, r.3])).collect::<Vec<_>>(), "cuts": cut_log}));
        out
    }
}

// ------------------------------------------------------------------------------------------
// C06

pub struct C06;

fn sealed_segments(dir: &Path, buckets: u16) -> Vec<(u16, u32, PathBuf)> {
    let mut v = Vec::new();
    for b in 0..buckets {
        let seg_dir = dir.join("buckets").join(format!("{b:05}")).join("segments");
        let mut ids: Vec<u32> = std::fs::read_dir(&seg_dir).map(|rd| rd.flatten().filter_map(|e| e.file_name().to_str().and_then(|s| s.parse::<u32>().ok())).collect()).unwrap_or_default();
        ids.sort();
        if ids.len() > 1 {
            for id in &ids[..ids.len() - 1] {
                v.push((b, *id, seg_dir.join(format!("{id:010}"))));
            }
        }
    }
    v
}

impl Check for C06 {
    fn id(&self) -> &'static str {
        "C06"
    }
    fn level(&self) -> &'static str {
        "fault_enumeration"
    }
    fn rule(&self) -> String {
        "case = configuration + history with large payloads (>= 1 rollover) and a clean shutdown; one sealed segment is chosen and each of its index files (index.eidx, partition.pidx, stream.sidx) is replaced by one of: complete, empty (the state right after create), header-only, a prefix ending inside the MPHF / records / values region, all-but-last-byte; every case first tries the control (all three complete), then the tape's combination, and in the thorough tier every single-file state x every file. Oracle: reopen succeeds and every acknowledged event of the database is found by id, stream scan and partition scan with correct versions/sequences (full audit). Non-trivial: at least one index file truncated to a proper prefix (incl. empty).".into()
    }
    fn assumptions(&self) -> Vec<String> {
        vec![
            "index files are written by one write (event index) or two consecutive writes (header+records, then values); every byte prefix is a possible crash state, a sample of them is tried".into(),
            "the sealed segment's data file is complete (it was fsynced before the rollover)".into(),
        ]
    }
    fn plan(&self, tier: Tier) -> Plan {
        let quick = tier == Tier::Quick;
        Plan { cases: if quick { 192 } else { 1600 }, max_tape: 230, min_slots: 6, max_slots: 16, shard_cases: 2, shard_timeout_s: if quick { 300 } else { 900 }, max_shrink_iters: 60, ..Plan::default() }
    }
    fn abort_is_violation(&self) -> bool {
        true
    }
    fn run_case(&self, t: &mut Tape, env: &Env) -> CaseOut {
        let mut out = CaseOut::default();
        let mut cfg = DbCfg::generate(t);
        cfg.segment_size = crate::dbx::MIN_SEGMENT;
        let pick_seg = t.raw();
        let states: Vec<u32> = (0..3).map(|_| t.raw()).collect();
        let kinds: Vec<usize> = (0..3).map(|_| t.weighted(&[2, 3, 1, 2, 2, 1])).collect();
        let mut w = base_weights();
        w.big_payload = 14;
        w.bad_input = 0;
        let ops = gen_ops(t, &w);
        let Some(base) = run_base(t, env, &mut out, "C06", &w, cfg.clone(), &ops) else {
            out.set_sample(json!({"config": cfg_json(&cfg), "note": "base history stopped"}));
            return out;
        };
        let sealed = sealed_segments(base.dir.path(), cfg.buckets);
        if sealed.is_empty() {
            out.class("no-sealed-segment");
            out.set_sample(json!({"config": cfg_json(&cfg), "base": base.rendered, "note": "no rollover happened"}));
            return out;
        }
        let (bucket, seg_id, seg_dir) = sealed[pick_seg as usize % sealed.len()].clone();
        let files = ["index.eidx", "partition.pidx", "stream.sidx"];
        // enumerate states: quick = the tape's combination; thorough = additionally every
        // single-file state for every file
        // the control comes first in every case: all three files complete (a crash after the
        // background index flush finished) must reopen and pass the audit
        let mut combos: Vec<Vec<(usize, usize, u32)>> = vec![(0..3).map(|i| (i, 0usize, states[i])).collect(), (0..3).map(|i| (i, kinds[i], states[i])).collect()];
        if env.tier == Tier::Thorough {
            for f in 0..3 {
                for kind in 1..6 {
                    combos.push(vec![(f, kind, states[f])]);
                }
            }
        }
        let mut log = Vec::new();
        let mut any_prefix = false;
        for combo in combos {
            let d = Scratch::new("c06");
            copy_dir(base.dir.path(), d.path()).unwrap();
            let rel = seg_dir.strip_prefix(base.dir.path()).unwrap();
            let mut desc = Vec::new();
            let mut damaged = false;
            let mut cut_early = false; // some file is empty or ends inside its header / MPHF
            for (fi, kind, seed) in &combo {
                let p = d.path().join(rel).join(files[*fi]);
                let Ok(orig) = std::fs::read(&p) else { continue };
                let len = orig.len();
                let mph_len = if len >= 20 { u64::from_le_bytes(orig[12..20].try_into().unwrap()) as usize } else { 0 };
                let new_len = match kind {
                    0 => len,                                           // complete
                    1 => 0,                                             // empty: right after create
                    2 => 20.min(len),                                   // header only
                    3 => (20 + (*seed as usize % mph_len.max(1))).min(len), // inside the MPHF
                    4 => (20 + mph_len + (*seed as usize % (len.saturating_sub(20 + mph_len)).max(1))).min(len), // inside records / values
                    _ => len.saturating_sub(1),                         // all but the last byte
                };
                if new_len < len {
                    damaged = true;
                    any_prefix = true;
                    if new_len < (20 + mph_len).min(len) {
                        cut_early = true;
                    }
                    let f = std::fs::OpenOptions::new().write(true).open(&p).unwrap();
                    f.set_len(new_len as u64).unwrap();
                }
                desc.push(json!({"file": files[*fi], "full": len, "kept": new_len}));
            }
            out.count("index_states_tried", 1);
            let mut it = Interp::new(cfg.clone(), d.path(), "C06", &mut out, env);
            it.report_as = Some("C06");
            it.sig_prefix = if damaged { "damaged-index".into() } else { "complete-index".into() };
            it.model = base.model.clone();
            it.next_id = base.next_id + 1000;
            block_on(async {
                match it.cfg.open(&it.dir) {
                    Ok(db) => it.db = Some(db),
                    Err(e) => {
                        it.stopped = true;
                        if vlib::is_resource_exhaustion(&format!("{e}")) {
                            it.out.class("inconclusive-resource-exhaustion");
                            it.out.count("inconclusive_resource_exhaustion", 1);
                            return;
                        }
                        // the listed finding covers a *truncated* index file (empty, or cut anywhere:
                        // the loader reads the whole file). Complete files that block reopening are
                        // reported under their own signature.
                        let _ = cut_early;
                        let sig = if damaged { "C06/open-failed" } else { "C06/open-failed/complete-indexes" };
                        it.out.fail(sig, format!("reopening fails when index files of sealed segment {bucket}:{seg_id} are {}: {e}", serde_json::to_string(&desc).unwrap_or_default()));
                        return;
                    }
                }
                it.audit("after-index-crash").await;
                it.close().await;
            });
            let stopped = it.stopped;
            if stopped {
                block_on(it.close());
            }
            drop(it);
            if damaged {
                // one symptom class per signature (the root cause is shared: sealed index
                // files are trusted as they are)
                for f in out.failures.iter_mut() {
                    if f.signature.starts_with("C06/damaged-index/") {
                        let sym = if f.signature.contains("-error") { "read-fails-with-error" } else { "silently-wrong-answer" };
                        f.message = format!("[{}] index state {}: {}", f.signature, serde_json::to_string(&desc).unwrap_or_default(), f.message);
                        f.signature = format!("C06/damaged-index/{sym}");
                    }
                }
            }
            log.push(json!({"state": desc}));
            if stopped {
                break;
            }
        }
        out.nontrivial = any_prefix;
        out.class("has-sealed-segment");
        out.set_sample(json!({"config": cfg_json(&cfg), "base": base.rendered, "sealed_segment": format!("{bucket}:{seg_id}"), "states": log}));
        out
    }
}

// ------------------------------------------------------------------------------------------
// C04

pub struct C04;

fn c04_group_ok(universe: &HashMap<Uuid, (usize, usize)>, txs: &[TxInput], committed: &dyn Fn(usize) -> bool, g: &CommittedEvents, filter: Option<&str>, need_complete: bool) -> Result<(), (String, String)> {
    let evs: Vec<_> = match g {
        CommittedEvents::Single(e) => vec![e.clone()],
        CommittedEvents::Transaction { events, .. } => events.iter().cloned().collect(),
    };
    if evs.is_empty() {
        return Err(("group/empty".into(), "empty group".into()));
    }
    let mut tx = None;
    let mut idxs = Vec::new();
    for e in &evs {
        let Some((ti, ei)) = universe.get(&e.event_id) else {
            return Err(("group/unknown-event".into(), format!("event {} was never submitted", e.event_id)));
        };
        if tx.map(|t| t != *ti).unwrap_or(false) {
            return Err(("group/mixes-transactions".into(), "one group holds events of two transactions".into()));
        }
        tx = Some(*ti);
        idxs.push(*ei);
    }
    let ti = tx.unwrap();
    if !committed(ti) {
        return Err(("group/uncommitted-transaction".into(), format!("a read returned {} event(s) of transaction #{ti}, which has no commit record (failed or cut)", evs.len())));
    }
    let full: Vec<usize> = (0..txs[ti].events.len()).filter(|i| filter.map(|s| &*txs[ti].events[*i].stream_id == s).unwrap_or(true)).collect();
    let is_suffix = idxs.len() <= full.len() && full[full.len() - idxs.len()..] == idxs[..];
    if !is_suffix || (need_complete && idxs.len() != full.len()) {
        return Err(("group/partial-transaction".into(), format!("a read returned events {idxs:?} of transaction #{ti} whose matching events are {full:?}")));
    }
    Ok(())
}

impl C04 {
    /// mode (a): histories with failing appends, all read APIs, C04 oracles of the interpreter
    fn history_case(&self, t: &mut Tape, env: &Env) -> CaseOut {
        let mut out = CaseOut::default();
        let cfg = DbCfg::generate(t);
        let mut w = GenWeights::base();
        w.bad_input = 5;
        w.multi = 10;
        w.read_tx = 4;
        w.read_event = 4;
        w.scan_stream = 4;
        w.scan_partition = 4;
        w.big_payload = 6;
        let ops = gen_ops(t, &w);
        let scratch = Scratch::new("c04h");
        let (rendered, failed_after_first, reads) = {
            let mut it = Interp::new(cfg.clone(), scratch.path(), "C04", &mut out, env);
            block_on(async {
                if it.open() {
                    it.run(&ops).await;
                }
                it.close().await;
            });
            (std::mem::take(&mut it.rendered), it.stats.failed_multi_after_first, it.stats.scans + it.stats.reads)
        };
        out.class("mode-history");
        out.count("reads", reads);
        out.nontrivial = failed_after_first > 0 && reads > 0;
        out.set_sample(json!({"mode": "history", "config": cfg_json(&cfg), "ops": rendered}));
        out
    }

    /// mode (b): crash cuts inside a transaction, then reads of everything incl. orphan ids
    fn crash_case(&self, t: &mut Tape, env: &Env) -> CaseOut {
        let mut out = CaseOut::default();
        let cfg = DbCfg::generate(t);
        let tail_gens = gen_tail(t);
        let cut_seed = t.raw();
        let w = base_weights();
        let ops = gen_ops(t, &w);
        out.class("mode-crash");
        let Some(base) = run_base(t, env, &mut out, "C04", &w, cfg.clone(), &ops) else {
            // divergence of the base history is not a C04 matter
            out.failures.clear();
            out.set_sample(json!({"mode": "crash", "note": "base history stopped"}));
            return out;
        };
        let tail = match make_tail(&base, &tail_gens, env, &mut out, "C04") {
            Ok(Some(t)) => t,
            _ => {
                out.failures.clear();
                out.set_sample(json!({"mode": "crash", "note": "no usable tail"}));
                return out;
            }
        };
        let cuts = choose_cuts(&tail, cut_seed, 14, 0);
        let avoid_orphans = env.avoid("C04/crash/lookup-returns-uncommitted");
        let mut touched = 0u64;
        let mut log = Vec::new();
        'cuts: for k in &cuts {
            let info = classify_cut(&tail, *k);
            if info.orphans == 0 && !info.partial_record {
                continue; // nothing uncommitted on disk
            }
            if info.orphans > 0 && avoid_orphans {
                out.count("excluded_known", 1);
                continue;
            }
            out.count("cuts", 1);
            let d = splice(&base, &tail, *k);
            let model = model_after(&base, &tail, info.complete_txs, cfg.segment_size);
            // ids of events that are on disk (complete records) but belong to an uncommitted tx
            let mut orphan_ids: Vec<(u16, Uuid, usize)> = Vec::new();
            for r in &tail.records {
                if r.2 >= info.complete_txs && r.0 + r.1 <= *k {
                    if let Some(ei) = r.3 {
                        orphan_ids.push((tail.txs[r.2].partition_id, tail.txs[r.2].events[ei].event_id, r.2));
                    }
                }
            }
            let mut it = Interp::new(cfg.clone(), d.path(), "C04", &mut out, env);
            it.model = model;
            it.next_id = base.next_id + 1000;
            let key = tail_gens[0].key_override.unwrap_or(0);
            let class = info.class;
            block_on(async {
                match it.cfg.open(&it.dir) {
                    Ok(db) => it.db = Some(db),
                    Err(_) => {
                        it.stopped = true; // judged by C05
                        it.out.foreign.push("C05/open-failed".into());
                        return;
                    }
                }
                for round in 0..2 {
                    // every read API: nothing of an uncommitted transaction may come back
                    for (pid, id, _ti) in &orphan_ids {
                        touched += 1;
                        match it.db().read_event(*pid, *id).await {
                            Ok(Some(e)) => {
                                let sig = if e.event_id == *id { "lookup-returns-uncommitted" } else { "lookup-returns-other-event" };
                                it.stopped = true;
                                it.out.fail(format!("C04/crash/{sig}"), format!("[{class}, round {round}] event lookup of {id} (event of a transaction whose commit record did not reach the disk) returned event {} of stream {} at sequence {}", e.event_id, &*e.stream_id, e.partition_sequence));
                                return;
                            }
                            Ok(None) | Err(_) => {}
                        }
                        match it.db().read_transaction(*pid, *id).await {
                            Ok(Some(g)) => {
                                let ids: Vec<Uuid> = g.into_iter().map(|e| e.event_id).collect();
                                it.stopped = true;
                                it.out.fail("C04/crash/transaction-lookup-returns-uncommitted", format!("[{class}, round {round}] transaction lookup by {id} (uncommitted) returned events {ids:?}"));
                                return;
                            }
                            Ok(None) | Err(_) => {}
                        }
                    }
                    // scans: every returned group must be a committed model transaction; errors
                    // are not this property's business (C05 judges them)
                    let parts: Vec<u16> = (0..it.cfg.partitions).collect();
                    for pid in parts {
                        for dir in [IterDirection::Forward, IterDirection::Reverse] {
                            let from = if matches!(dir, IterDirection::Forward) { 0 } else { u64::MAX };
                            if let Ok(groups) = it.collect_partition(pid, from, dir, 5).await {
                                for g in &groups {
                                    if let Err((prop, sig, msg)) = it.check_group(g, None) {
                                        if prop == "C04" {
                                            it.stopped = true;
                                            it.out.fail(format!("C04/crash/partition-scan/{sig}"), format!("[{class}, round {round}] {msg}"));
                                            return;
                                        }
                                    }
                                }
                            }
                        }
                    }
                    let streams: Vec<(u16, String)> = it.model.streams.keys().cloned().collect();
                    let mut extra: Vec<(u16, String)> = Vec::new();
                    for tx in &tail.txs {
                        for e in &tx.events {
                            extra.push((it.cfg.bucket_of(tx.partition_id), e.stream_id.to_string()));
                        }
                    }
                    for (bucket, sid) in streams.into_iter().chain(extra) {
                        let pid = (0..it.cfg.partitions).find(|p| it.cfg.bucket_of(*p) == bucket).unwrap_or(0);
                        if let Ok(groups) = it.collect_stream(pid, &sid, 0, IterDirection::Forward, 5).await {
                            for g in &groups {
                                if let Err((prop, sig, msg)) = it.check_group(g, Some(&sid)) {
                                    if prop == "C04" {
                                        it.stopped = true;
                                        it.out.fail(format!("C04/crash/stream-scan/{sig}"), format!("[{class}, round {round}] stream {sid:?}: {msg}"));
                                        return;
                                    }
                                }
                            }
                        }
                    }
                    if round == 0 {
                        // new transactions written behind the uncommitted bytes must not drag
                        // them into a committed group
                        let g1 = small_tx(key, 2, cut_seed ^ 5, key);
                        let tx = it.concretize(&g1);
                        if let Ok(acc) = it.model.decide(&tx, it.cfg.segment_size) {
                            if it.db().append_events(Interp::to_transaction(&tx)).await.is_ok() {
                                it.model.apply(&tx, &acc);
                            } else {
                                return;
                            }
                        }
                    }
                }
                it.close().await;
            });
            let stopped = it.stopped;
            if stopped {
                block_on(it.close());
            }
            drop(it);
            log.push(json!({"k": k, "class": info.class, "orphan_events": info.orphans}));
            if stopped {
                break 'cuts;
            }
        }
        out.count("reads_touching_uncommitted", touched);
        out.nontrivial = touched > 0;
        out.set_sample(json!({"mode": "crash", "config": cfg_json(&cfg), "base": base.rendered, "tail": tail.txs.iter().map(Interp::render_tx).collect::<Vec<_>>(), "cuts": log}));
        out
    }

    /// mode (c): a concurrent reader while multi-event transactions are appended
    fn concurrent_case(&self, t: &mut Tape, env: &Env) -> CaseOut {
        let mut out = CaseOut::default();
        let mut cfg = DbCfg::generate(t);
        cfg.buckets = 1;
        cfg.writer_threads = 1;
        cfg.partitions = 1;
        out.class("mode-concurrent");
        let n_tx = 6 + t.usize_below(14);
        let mut gens = Vec::new();
        for i in 0..n_tx {
            let n = 2 + t.usize_below(4);
            let bad = t.chance(1, 5);
            let mut g = small_tx(0, n, t.raw(), 0);
            for (j, e) in g.events.iter_mut().enumerate() {
                e.payload_len = *t.pick(&[10usize, 300, 3000, 9000, 30000]);
                if bad && j == n - 1 {
                    e.ts = 3; // fails after the earlier events were written
                }
            }
            let _ = i;
            gens.push(g);
        }
        let scratch = Scratch::new("c04c");
        let mut dummy = CaseOut::default();
        let mut it = Interp::new(cfg.clone(), scratch.path(), "C04", &mut dummy, env);
        let mut txs: Vec<TxInput> = Vec::new();
        for g in &gens {
            // all events Any: concretize without model dependence
            txs.push(it.concretize(g));
        }
        let mut universe: HashMap<Uuid, (usize, usize)> = HashMap::new();
        for (ti, tx) in txs.iter().enumerate() {
            for (ei, e) in tx.events.iter().enumerate() {
                universe.insert(e.event_id, (ti, ei));
            }
        }
        let valid: Vec<bool> = txs.iter().map(|tx| tx.events.iter().all(|e| e.timestamp >> 63 == 0)).collect();
        let universe = Arc::new(universe);
        let txs_arc = Arc::new(txs.clone());
        let valid_arc = Arc::new(valid.clone());
        let stop = Arc::new(AtomicBool::new(false));
        let mut failure: Option<(String, String)> = None;
        let mut reads_during = 0u64;
        block_on(async {
            if !it.open() {
                return;
            }
            let db = it.db().clone();
            let mut readers = Vec::new();
            for r in 0..2 {
                let db = db.clone();
                let universe = universe.clone();
                let txs = txs_arc.clone();
                let valid = valid_arc.clone();
                let stop = stop.clone();
                readers.push(tokio::spawn(async move {
                    let committed = |ti: usize| valid[ti];
                    let mut n = 0u64;
                    let sids: Vec<String> = vec![crate::store::stream_name(0), crate::store::stream_name(1)];
                    while !stop.load(Ordering::Relaxed) {
                        n += 1;
                        // partition scan from 0: complete transactions only
                        if let Ok(mut iter) = db.read_partition(0, 0, if n % 3 == 0 { IterDirection::Reverse } else { IterDirection::Forward }).await {
                            let rev = n % 3 == 0;
                            let mut iter_from_max = None;
                            if rev {
                                iter_from_max = db.read_partition(0, u64::MAX, IterDirection::Reverse).await.ok();
                            }
                            let it2 = if let Some(i) = iter_from_max.as_mut() { i } else { &mut iter };
                            while let Ok(Some(batch)) = it2.next_batch(1 + (n as usize % 7)).await {
                                for g in &batch {
                                    if let Err(e) = c04_group_ok(&universe, &txs, &committed, g, None, !rev) {
                                        return Err((format!("concurrent/partition-scan/{}", e.0), e.1));
                                    }
                                }
                            }
                        }
                        let sid = &sids[(n as usize + r) % 2];
                        if let Ok(mut iter) = db.read_stream(0, StreamId::new(sid.clone()).unwrap(), 0, IterDirection::Forward).await {
                            while let Ok(Some(batch)) = iter.next_batch(3).await {
                                for g in &batch {
                                    if let Err(e) = c04_group_ok(&universe, &txs, &committed, g, Some(sid), true) {
                                        return Err((format!("concurrent/stream-scan/{}", e.0), e.1));
                                    }
                                }
                            }
                        }
                        // lookups by first id of every transaction
                        for (ti, tx) in txs.iter().enumerate() {
                            if let Ok(Some(g)) = db.read_transaction(0, tx.events[0].event_id).await {
                                if let Err(e) = c04_group_ok(&universe, &txs, &committed, &g, None, true) {
                                    return Err((format!("concurrent/transaction-lookup/{}", e.0), format!("tx #{ti}: {}", e.1)));
                                }
                            }
                            let last = tx.events.last().unwrap().event_id;
                            if let Ok(Some(e)) = db.read_event(0, last).await {
                                if !valid[ti] || e.event_id != last {
                                    return Err(("concurrent/event-lookup/uncommitted".into(), format!("event lookup returned event {} while looking for the last event of tx #{ti} (committed: {})", e.event_id, valid[ti])));
                                }
                            }
                        }
                        tokio::task::yield_now().await;
                    }
                    Ok(n)
                }));
            }
            for tx in &txs {
                let _ = db.append_events(Interp::to_transaction(tx)).await;
            }
            tokio::time::sleep(std::time::Duration::from_millis(2)).await;
            stop.store(true, Ordering::Relaxed);
            for r in readers {
                match r.await {
                    Ok(Ok(n)) => reads_during += n,
                    Ok(Err(f)) => failure = Some(f),
                    Err(e) => failure = Some(("concurrent/reader-panicked".into(), format!("{e}"))),
                }
            }
            it.close().await;
        });
        drop(it);
        if let Some((sig, msg)) = failure {
            out.fail(format!("C04/{sig}"), msg);
        }
        out.count("reader_rounds_during_appends", reads_during);
        out.nontrivial = reads_during > 0 && valid.iter().any(|v| !*v);
        out.set_sample(json!({"mode": "concurrent", "config": cfg_json(&cfg), "transactions": txs.iter().map(Interp::render_tx).collect::<Vec<_>>()}));
        out
    }
}

impl Check for C04 {
    fn id(&self) -> &'static str {
        "C04"
    }
    fn level(&self) -> &'static str {
        "exploration"
    }
    fn rule(&self) -> String {
        "three generated case kinds. history: store histories heavy in multi-event transactions that fail behind their first event (timestamp >= 2^63, event name > 255 bytes) mixed with event/transaction lookups and scans; every returned group must be one committed model transaction: complete for lookups by first id, an in-order suffix after the stream filter for scans, never mixing transactions, never an uncommitted event. crash: the C05 splice construction restricted to cuts that leave uncommitted bytes on disk (after >= 1 complete event without commit, or inside a record); after reopen, lookups of the orphan ids and all partition/stream scans (before and after a further append) must not return anything of the uncommitted transaction. concurrent: two reader tasks scan (forward/reverse), look up transactions and events continuously while 6-20 multi-event transactions (some failing at their last event) are appended; whatever a reader sees must be a complete committed transaction (sound under any interleaving). Non-trivial: history with a failed-after-first-event append and reads / a read that touched an orphan id / reader rounds overlapping appends with at least one failing transaction.".into()
    }
    fn assumptions(&self) -> Vec<String> {
        vec![
            "scan groups may be suffixes of a transaction (start position / stream filter); lookups by first event id and partition scans from 0 must be complete".into(),
            "errors returned by reads of crashed states are judged by C05, not here".into(),
            "the concurrent part samples real thread interleavings; it does not enumerate them".into(),
        ]
    }
    fn plan(&self, tier: Tier) -> Plan {
        let quick = tier == Tier::Quick;
        Plan { cases: if quick { 800 } else { 8000 }, max_tape: 230, min_slots: 4, max_slots: 30, shard_cases: 4, shard_timeout_s: if quick { 300 } else { 900 }, max_shrink_iters: 150, ..Plan::default() }
    }
    fn abort_is_violation(&self) -> bool {
        true
    }
    fn run_case(&self, t: &mut Tape, env: &Env) -> CaseOut {
        match t.weighted(&[5, 3, 3]) {
            0 => self.history_case(t, env),
            1 => self.crash_case(t, env),
            _ => self.concurrent_case(t, env),
        }
    }
}

pub fn _unused(_: &Transaction, _: &dyn Fn(&mut Tape) -> TxGen) {
    let _ = gen_tx;
}
