//! Checks for the storage crates (seglog, sierradb, sierradb-protocol).

mod dbx;
mod pure;
mod seglogx;

use vlib::Check;

fn main() {
    let checks: Vec<&dyn Check> = vec![&pure::C23, &pure::C25, &seglogx::C17, &seglogx::C18];
    vlib::main_entry(&checks)
}
