//! Checks for the storage crates (seglog, sierradb, sierradb-protocol).

mod conc;
mod crash;
mod dbx;
mod pure;
mod model;
mod seglogx;
mod store;
mod storechecks;

use vlib::Check;

fn main() {
    let checks: Vec<&dyn Check> = vec![&pure::C23, &pure::C25, &seglogx::C17, &seglogx::C18, &storechecks::C01, &storechecks::C02, &storechecks::C03, &storechecks::C19, &crash::C04, &crash::C05, &crash::C06, &conc::C15, &conc::C16, &conc::C20];
    vlib::main_entry(&checks)
}
