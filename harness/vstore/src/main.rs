//! Checks for the storage crates (seglog, sierradb, sierradb-protocol).

mod dbx;
mod pure;

use vlib::Check;

fn main() {
    let checks: Vec<&dyn Check> = vec![&pure::C23, &pure::C25];
    vlib::main_entry(&checks)
}
