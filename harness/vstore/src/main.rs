fn main() {
    vlib::main_entry(&vstore::checks())
}
