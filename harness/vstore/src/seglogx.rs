//! C17 (round-trip + corruption detection) and C18 (no stale / unflushed reads) for `seglog`.

use std::os::unix::fs::FileExt;
use std::panic::{AssertUnwindSafe, catch_unwind};
use std::path::Path;

use seglog::RECORD_HEAD_SIZE;
use seglog::parse::parse_record;
use seglog::read::{ReadError, ReadHint, Reader};
use seglog::write::Writer;
use serde_json::{Value, json};
use vlib::{CaseOut, Check, Env, Plan, Scratch, Tape, Tier, expand_bytes};

#[derive(Clone, Debug)]
pub struct RecSpec {
    pub len: usize,
    /// 0 zeros, 1 repeating text (compressible), 2 pseudo-random (incompressible)
    pub content: u8,
    pub seed: u32,
    pub compress: bool,
    pub header_seed: u32,
}

impl RecSpec {
    pub fn data(&self) -> Vec<u8> {
        match self.content {
            0 => vec![0u8; self.len],
            1 => {
                let pat = b"sierradb-event-payload-";
                (0..self.len).map(|i| pat[(i + self.seed as usize) % pat.len()]).collect()
            }
            _ => expand_bytes(self.seed as u64, self.len),
        }
    }
    pub fn header<const H: usize>(&self) -> [u8; H] {
        let v = expand_bytes(self.header_seed as u64 ^ 0x4845_4144, H);
        let mut h = [0u8; H];
        h.copy_from_slice(&v);
        h
    }
    fn render(&self) -> Value {
        let content = ["zeros", "text", "random"][self.content as usize];
        json!({"len": self.len, "content": content, "seed": self.seed, "compress": self.compress})
    }
}

const SIZE_POINTS: [usize; 22] = [
    0, 1, 2, 7, 8, 9, 100, 127, 128, 129, 1000, 2039, 2040, 2041, 2047, 2048, 2049, 4087, 4088, 4089, 4096, 4097,
];
const BIG_POINTS: [usize; 8] = [65527, 65528, 65535, 65536, 65537, 70000, 131072, 300 * 1024];

pub fn gen_rec(t: &mut Tape, allow_big: bool) -> RecSpec {
    let len = match t.weighted(&[5, 3, if allow_big { 1 } else { 0 }]) {
        0 => *t.pick(&SIZE_POINTS),
        1 => t.below(5000) as usize,
        _ => *t.pick(&BIG_POINTS),
    };
    RecSpec {
        len,
        content: t.below(3) as u8,
        seed: t.raw(),
        compress: t.bool(),
        header_seed: t.raw(),
    }
}

macro_rules! with_h {
    ($h:expr, $f:ident, $($arg:expr),*) => {
        match $h {
            0 => $f::<0>($($arg),*),
            1 => $f::<1>($($arg),*),
            8 => $f::<8>($($arg),*),
            16 => $f::<16>($($arg),*),
            _ => $f::<32>($($arg),*),
        }
    };
}

const HS: [usize; 5] = [1, 0, 8, 16, 32];

#[derive(Clone)]
struct Written {
    offset: u64,
    len: usize, // stored length incl. head
    header: Vec<u8>,
    data: Vec<u8>,
}

fn err_class(e: &ReadError) -> &'static str {
    match e {
        ReadError::Crc32cMismatch { .. } => "crc",
        ReadError::OutOfBounds { .. } => "bounds",
        ReadError::TruncationMarker { .. } => "marker",
        ReadError::ReplaceLengthMismatch { .. } => "replace",
        ReadError::Io(_) => "io",
    }
}

// ------------------------------------------------------------------------------------------
// C17

pub struct C17;

struct C17Case {
    h: usize,
    start: u64,
    recs: Vec<RecSpec>,
    target: usize,
    sample_seed: u32,
}

fn c17_gen(t: &mut Tape) -> C17Case {
    let h = *t.pick(&HS);
    let start = *t.pick(&[0u64, 48, 64]);
    let n = 1 + t.usize_below(4);
    let mut recs = Vec::new();
    let mut big_used = false;
    for _ in 0..n {
        let r = gen_rec(t, !big_used);
        if r.len > 5000 {
            big_used = true;
        }
        recs.push(r);
    }
    let target = t.usize_below(n);
    C17Case { h, start, recs, target, sample_seed: t.raw() }
}

/// One corrupted image of the segment: checks every read path at the target record.
/// `orig` is the intact record. Returns a description of a wrongly accepted read, or a panic.
fn c17_probe<const H: usize>(
    path: &Path,
    image: &[u8],
    valid_len: usize,
    rec: &Written,
    prior: &[Written],
    with_iter: bool,
    stats: &mut Stats,
) -> Option<(String, String)> {
    let off = rec.offset;
    let matches = |hdr: &[u8], data: &[u8]| hdr == rec.header.as_slice() && data == rec.data.as_slice();

    // parse_record on the in-memory image (cut to valid_len)
    let r = catch_unwind(AssertUnwindSafe(|| parse_record::<H>(&image[..valid_len], off as usize)));
    match r {
        Err(_) => return Some(("parse_record/panic".into(), "parse_record panicked".into())),
        Ok(Ok((hdr, data, _))) => {
            if !matches(&hdr, &data) {
                return Some(("parse_record/accepted-corrupt".into(), format!("parse_record returned Ok with {} data bytes that differ from the original", data.len())));
            }
            stats.accepted_identical += 1;
        }
        Ok(Err(e)) => stats.note(err_class(&e)),
    }

    // file based readers (the image has already been written to `path`, truncated to valid_len
    // when valid_len < image.len())
    let r = catch_unwind(AssertUnwindSafe(|| -> Result<Option<(String, String)>, ReadError> {
        let mut reader = Reader::<H>::open(path, None)?;
        for (hint, name) in [(ReadHint::Sequential, "sequential"), (ReadHint::Random, "random")] {
            match reader.read_record(off, hint) {
                Ok(r) => {
                    if !matches(&r.header, &r.data) {
                        return Ok(Some((format!("reader-{name}/accepted-corrupt"), format!("read_record({off}, {name}) returned Ok with different bytes (len {})", r.data.len()))));
                    }
                }
                Err(_) => {}
            }
        }
        if with_iter {
            let mut reader = Reader::<H>::open(path, None)?;
            let start = prior.first().map(|p| p.offset).unwrap_or(off);
            let mut it = reader.iter(start);
            let mut idx = 0usize;
            loop {
                match it.next_record() {
                    Ok(Some(r)) => {
                        let want = if idx < prior.len() { Some(&prior[idx]) } else if idx == prior.len() { Some(rec) } else { None };
                        match want {
                            Some(w) => {
                                if r.offset != w.offset || r.header != w.header.as_slice() || r.data != w.data.as_slice() {
                                    return Ok(Some(("iter/accepted-corrupt".into(), format!("iteration yielded a record at {} that differs from what was written there", r.offset))));
                                }
                            }
                            None => break,
                        }
                        idx += 1;
                    }
                    Ok(None) => break,
                    Err(_) => break,
                }
            }
            if idx < prior.len() {
                return Ok(Some(("iter/lost-intact-prefix".into(), format!("iteration stopped after {idx} records although {} intact records precede the corrupted one", prior.len()))));
            }
        }
        Ok(None)
    }));
    match r {
        Err(_) => Some(("reader/panic".into(), "a Reader path panicked".into())),
        Ok(Ok(Some(x))) => Some(x),
        Ok(Ok(None)) => None,
        Ok(Err(_)) => None, // could not even open: acceptable outcome (reports an error)
    }
}

#[derive(Default)]
struct Stats {
    crc: u64,
    bounds: u64,
    marker: u64,
    io: u64,
    accepted_identical: u64,
    probes: u64,
    len_field_detected: u64,
    boundary_cross: bool,
}

impl Stats {
    fn note(&mut self, c: &str) {
        match c {
            "crc" => self.crc += 1,
            "bounds" => self.bounds += 1,
            "marker" => self.marker += 1,
            _ => self.io += 1,
        }
    }
}

/// Under the coverage-guided driver one execution probes a tape-chosen handful of faults
/// instead of enumerating all of them (libFuzzer supplies the enumeration).
fn lean_subset(v: &mut Vec<usize>, keep: usize, seed: u64) {
    if std::env::var_os("VERIF_FUZZ_ID").is_none() || v.len() <= keep {
        return;
    }
    let picks = expand_bytes(seed, keep * 8);
    let mut outv: Vec<usize> = picks.chunks(8).map(|c| v[(u64::from_le_bytes(c.try_into().unwrap()) % v.len() as u64) as usize]).collect();
    outv.sort();
    outv.dedup();
    *v = outv;
}

fn c17_run<const H: usize>(case: &C17Case, out: &mut CaseOut) {
    let scratch = Scratch::new("c17");
    let path = scratch.path().join("seg");
    let total: usize = case.recs.iter().map(|r| r.len + RECORD_HEAD_SIZE + H + 64).sum::<usize>() + case.start as usize + 4096;
    let seg_size = total.max(8192);
    let mut written: Vec<Written> = Vec::new();
    let write_end;
    {
        let mut w = match Writer::<H>::create(&path, seg_size, case.start) {
            Ok(w) => w,
            Err(e) => {
                out.fail("C17/setup/create", format!("{e}"));
                return;
            }
        };
        for r in &case.recs {
            if r.compress {
                w.enable_compression()
            } else {
                w.disable_compression()
            }
            let hdr = r.header::<H>();
            let data = r.data();
            match w.append(&hdr, &data) {
                Ok((offset, len)) => written.push(Written { offset, len, header: hdr.to_vec(), data }),
                Err(e) => {
                    out.fail("C17/roundtrip/append-failed", format!("append of {} bytes into an ample segment failed: {e}", r.len));
                    return;
                }
            }
        }
        write_end = w.write_offset();
        if let Err(e) = w.sync() {
            out.fail("C17/setup/sync", format!("{e}"));
            return;
        }
        // ---- oracle 1: round trip through a live reader sharing the flushed offset
        let flushed = w.flushed_offset();
        let mut rd = Reader::<H>::open(&path, Some(flushed)).unwrap();
        let mut rd2 = rd.try_clone().unwrap();
        for wr in &written {
            for (hint, name) in [(ReadHint::Random, "random"), (ReadHint::Sequential, "sequential")] {
                match rd.read_record(wr.offset, hint) {
                    Ok(r) => {
                        if r.header != wr.header.as_slice() || r.data != wr.data.as_slice() || r.len != wr.len || r.offset != wr.offset {
                            out.fail(format!("C17/roundtrip/{name}-mismatch"), format!("record at {} (len {}) read back differently", wr.offset, wr.data.len()));
                            return;
                        }
                    }
                    Err(e) => {
                        out.fail(format!("C17/roundtrip/{name}-error"), format!("record at {} data len {}: {e}", wr.offset, wr.data.len()));
                        return;
                    }
                }
            }
        }
        let mut it = rd2.iter(case.start);
        for wr in &written {
            match it.next_record() {
                Ok(Some(r)) if r.offset == wr.offset && r.header == wr.header.as_slice() && r.data == wr.data.as_slice() => {}
                other => {
                    out.fail("C17/roundtrip/iter-mismatch", format!("iteration at {}: got {:?}", wr.offset, other.map(|o| o.map(|r| (r.offset, r.data.len())))));
                    return;
                }
            }
        }
        match it.next_record() {
            Ok(None) => {}
            other => {
                out.fail("C17/roundtrip/iter-extra", format!("iteration past the end returned {:?}", other.map(|o| o.map(|r| (r.offset, r.data.len())))));
                return;
            }
        }
    }
    let image = std::fs::read(&path).unwrap();
    for wr in &written {
        match parse_record::<H>(&image, wr.offset as usize) {
            Ok((hdr, data, len)) if hdr.as_slice() == wr.header.as_slice() && data == wr.data && len == wr.len => {}
            Ok(_) => {
                out.fail("C17/roundtrip/parse-mismatch", format!("parse_record at {} differs", wr.offset));
                return;
            }
            Err(e) => {
                out.fail("C17/roundtrip/parse-error", format!("parse_record at {}: {e}", wr.offset));
                return;
            }
        }
    }
    // reopened writer resumes exactly after the last record
    match catch_unwind(AssertUnwindSafe(|| Writer::<H>::open(&path, seg_size, case.start).map(|w| w.write_offset()))) {
        Ok(Ok(o)) if o == write_end => {}
        Ok(Ok(o)) => {
            out.fail("C17/reopen/intact-offset", format!("Writer::open resumed at {o}, last record ends at {write_end}"));
            return;
        }
        Ok(Err(e)) => {
            out.fail("C17/reopen/intact-error", format!("{e}"));
            return;
        }
        Err(_) => {
            out.fail("C17/reopen/panic", "Writer::open panicked on an intact file");
            return;
        }
    }

    // ---- oracle 2: corruption of the target record
    let tgt = written[case.target].clone();
    let prior = &written[..case.target];
    let rec_start = tgt.offset as usize;
    let rec_end = rec_start + tgt.len;
    let head_end = rec_start + RECORD_HEAD_SIZE + H;
    let file = std::fs::OpenOptions::new().read(true).write(true).open(&path).unwrap();
    let mut img = image.clone();
    let mut stats = Stats::default();
    let small = tgt.len <= 4096 + RECORD_HEAD_SIZE + H;
    stats.boundary_cross = tgt.len > 2048;

    // bit positions to flip
    let mut bits: Vec<usize> = Vec::new();
    if small {
        bits.extend((rec_start * 8)..(rec_end * 8));
    } else {
        bits.extend((rec_start * 8)..(head_end.min(rec_end) * 8));
        let body_bits = (rec_end - head_end) * 8;
        let samples = expand_bytes(case.sample_seed as u64, 8 * 600);
        for c in samples.chunks(8) {
            let x = u64::from_le_bytes(c.try_into().unwrap());
            bits.push(head_end * 8 + (x as usize % body_bits.max(1)));
        }
        // buffer boundaries inside the record
        for b in [2048usize, 4096, 65536] {
            for d in [-1i64, 0, 1] {
                let p = rec_start as i64 + RECORD_HEAD_SIZE as i64 + b as i64 + d;
                if p >= head_end as i64 && (p as usize) < rec_end {
                    bits.push(p as usize * 8 + 3);
                }
            }
        }
    }
    lean_subset(&mut bits, 24, case.sample_seed as u64 ^ 0xB175);
    // file-based probing for every head bit and a sample of body bits; in-memory for all
    let file_every = if small { (bits.len() / 400).max(1) } else { 1 };
    let mut fail: Option<(String, String)> = None;
    'bits: for (i, bit) in bits.iter().enumerate() {
        let byte = bit / 8;
        let mask = 1u8 << (bit % 8);
        img[byte] ^= mask;
        let in_head = byte < head_end;
        let do_file = in_head || i % file_every == 0;
        stats.probes += 1;
        let before = (stats.crc, stats.bounds, stats.marker, stats.io);
        if do_file {
            file.write_all_at(&[img[byte]], byte as u64).unwrap();
            if let Some(f) = c17_probe::<H>(&path, &img, img.len(), &tgt, prior, in_head && (bit % 8 == 0), &mut stats) {
                fail = Some((format!("bitflip/{}", f.0), format!("{} [bit {} of the record at {}, byte {} ({})]", f.1, bit - rec_start * 8, rec_start, byte - rec_start, if byte < rec_start + 4 { "length field" } else if byte < rec_start + 8 { "crc field" } else if in_head { "header" } else { "data" })));
            }
            file.write_all_at(&[img[byte] ^ mask], byte as u64).unwrap();
        } else {
            let r = catch_unwind(AssertUnwindSafe(|| parse_record::<H>(&img, rec_start)));
            match r {
                Err(_) => fail = Some(("bitflip/parse_record/panic".into(), format!("parse_record panicked with bit {} flipped", bit - rec_start * 8))),
                Ok(Ok((hdr, data, _))) => {
                    if hdr.as_slice() != tgt.header.as_slice() || data != tgt.data {
                        fail = Some(("bitflip/parse_record/accepted-corrupt".into(), format!("parse_record accepted the record with bit {} flipped", bit - rec_start * 8)));
                    }
                }
                Ok(Err(e)) => stats.note(err_class(&e)),
            }
        }
        if byte < rec_start + 4 && (stats.crc, stats.bounds, stats.marker, stats.io) != before {
            stats.len_field_detected += 1;
        }
        img[byte] ^= mask;
        if fail.is_some() {
            break 'bits;
        }
    }

    // bursts of 2..=32 bits: every start in the head, sampled elsewhere
    if fail.is_none() {
        let mut starts: Vec<usize> = ((rec_start * 8)..(head_end.min(rec_end) * 8)).collect();
        let body_bits = (rec_end.saturating_sub(head_end)) * 8;
        if body_bits > 0 {
            for c in expand_bytes(case.sample_seed as u64 ^ 0xB0B, 8 * 200).chunks(8) {
                let x = u64::from_le_bytes(c.try_into().unwrap());
                starts.push(head_end * 8 + (x as usize % body_bits));
            }
        }
        lean_subset(&mut starts, 8, case.sample_seed as u64 ^ 0x57A7);
        let lens = expand_bytes(case.sample_seed as u64 ^ 0x1E57, starts.len() * 5);
        'burst: for (si, s) in starts.iter().enumerate() {
            let blen = 2 + (lens[si * 5] as usize % 31); // 2..=32
            // burst: first and last bit flipped, interior bits from the pattern
            let mut flipped: Vec<usize> = Vec::new();
            for k in 0..blen {
                let bit = s + k;
                if bit >= rec_end * 8 {
                    break;
                }
                let pat = lens[si * 5 + 1 + (k / 8) % 4] >> (k % 8) & 1 == 1;
                if k == 0 || k == blen - 1 || pat {
                    flipped.push(bit);
                }
            }
            if flipped.len() < 2 {
                continue;
            }
            for b in &flipped {
                img[b / 8] ^= 1 << (b % 8);
            }
            let lo = flipped[0] / 8;
            let hi = flipped[flipped.len() - 1] / 8;
            file.write_all_at(&img[lo..=hi], lo as u64).unwrap();
            stats.probes += 1;
            let res = c17_probe::<H>(&path, &img, img.len(), &tgt, prior, si % 16 == 0, &mut stats);
            for b in &flipped {
                img[b / 8] ^= 1 << (b % 8);
            }
            file.write_all_at(&img[lo..=hi], lo as u64).unwrap();
            if let Some(f) = res {
                fail = Some((format!("burst/{}", f.0), format!("{} [burst of {} bits starting at bit {} of the record]", f.1, blen, s - rec_start * 8)));
                break 'burst;
            }
        }
    }

    // truncations: the file ends inside the record
    let mut cuts_done = 0u64;
    if fail.is_none() {
        let mut cuts: Vec<usize> = Vec::new();
        if small {
            cuts.extend(rec_start..rec_end);
        } else {
            cuts.extend(rec_start..head_end.min(rec_end) + 2);
            for b in [2048usize, 4096, 65536] {
                for d in -1i64..=1 {
                    for base in [rec_start + RECORD_HEAD_SIZE, rec_start] {
                        let p = base as i64 + b as i64 + d;
                        if p > rec_start as i64 && (p as usize) < rec_end {
                            cuts.push(p as usize);
                        }
                    }
                }
            }
            for c in expand_bytes(case.sample_seed as u64 ^ 0xC075, 8 * 100).chunks(8) {
                let x = u64::from_le_bytes(c.try_into().unwrap());
                cuts.push(rec_start + (x as usize % tgt.len));
            }
            cuts.push(rec_end - 1);
        }
        lean_subset(&mut cuts, 12, case.sample_seed as u64 ^ 0xC0C0);
        let tpath = scratch.path().join("trunc");
        let step = if small { (cuts.len() / 300).max(1) } else { 1 };
        for (ci, cut) in cuts.iter().enumerate() {
            stats.probes += 1;
            cuts_done += 1;
            // in-memory for all cuts
            let r = catch_unwind(AssertUnwindSafe(|| parse_record::<H>(&image[..*cut], rec_start)));
            match r {
                Err(_) => {
                    fail = Some(("truncate/parse_record/panic".into(), format!("parse_record panicked on a buffer cut {} bytes into the record", cut - rec_start)));
                    break;
                }
                Ok(Ok(_)) => {
                    fail = Some(("truncate/parse_record/accepted".into(), format!("parse_record returned a record although the buffer ends {} bytes into it (record is {} bytes)", cut - rec_start, tgt.len)));
                    break;
                }
                Ok(Err(e)) => stats.note(err_class(&e)),
            }
            let near_head = *cut < head_end + 2;
            if !(near_head || ci % step == 0) {
                continue;
            }
            std::fs::write(&tpath, &image[..*cut]).unwrap();
            if let Some(f) = c17_probe::<H>(&tpath, &image, *cut, &tgt, prior, near_head, &mut stats) {
                fail = Some((format!("truncate/{}", f.0), format!("{} [file ends {} bytes into the {}-byte record]", f.1, cut - rec_start, tgt.len)));
                break;
            }
            // writer recovery on the truncated file: resumes right after the last intact record
            if near_head || ci % (step * 8) == 0 {
                let r = catch_unwind(AssertUnwindSafe(|| Writer::<H>::open(&tpath, seg_size, case.start).map(|w| w.write_offset())));
                match r {
                    Err(_) => {
                        fail = Some(("truncate/reopen/panic".into(), format!("Writer::open panicked on a file cut {} bytes into the record", cut - rec_start)));
                        break;
                    }
                    Ok(Ok(o)) if o == tgt.offset => {}
                    Ok(Ok(o)) => {
                        fail = Some(("truncate/reopen/offset".into(), format!("Writer::open on a file cut {} bytes into the record at {} resumed at {o}", cut - rec_start, tgt.offset)));
                        break;
                    }
                    Ok(Err(_)) => {} // refusing to open is an error report, not acceptance
                }
            }
        }
        let _ = std::fs::remove_file(&tpath);
    }
    // writer recovery after a CRC-detected flip in the target: resumes at the target's offset
    if fail.is_none() && tgt.len > RECORD_HEAD_SIZE + H {
        let byte = rec_end - 1;
        file.write_all_at(&[image[byte] ^ 0x10], byte as u64).unwrap();
        let r = catch_unwind(AssertUnwindSafe(|| Writer::<H>::open(&path, seg_size, case.start).map(|w| w.write_offset())));
        file.write_all_at(&[image[byte]], byte as u64).unwrap();
        match r {
            Err(_) => fail = Some(("bitflip/reopen/panic".into(), "Writer::open panicked on a file with one flipped data bit".into())),
            Ok(Ok(o)) if o == tgt.offset => {}
            Ok(Ok(o)) => fail = Some(("bitflip/reopen/offset".into(), format!("Writer::open resumed at {o} although the record at {} is corrupt", tgt.offset))),
            Ok(Err(_)) => {}
        }
    }

    out.count("corrupted_images_probed", stats.probes);
    out.count("truncations", cuts_done);
    out.count("rejected_crc", stats.crc);
    out.count("rejected_bounds", stats.bounds);
    out.count("rejected_marker", stats.marker);
    out.count("rejected_io_decode", stats.io);
    out.count("length_field_flips_detected", stats.len_field_detected);
    out.nontrivial = stats.len_field_detected > 0 || stats.boundary_cross;
    if let Some((sig, msg)) = fail {
        out.fail(format!("C17/{sig}"), format!("H={H} {msg}; target record: data len {} stored len {}", tgt.data.len(), tgt.len));
    }
}

impl Check for C17 {
    fn id(&self) -> &'static str {
        "C17"
    }
    fn level(&self) -> &'static str {
        "fault_enumeration"
    }
    fn rule(&self) -> String {
        "case = header size H in {0,1,8,16,32}, start offset, 1-4 records (sizes at 0/1/127-129/2039-2049/4087-4097/65527-65537/.../300 KiB and random < 5000; zeros / text / incompressible; compression per record), one target record. Round-trip oracle on all records (random, sequential, iteration, parse_record, Writer::open offset). Fault enumeration on the target: every single bit when the stored record is <= 4 KiB (otherwise every bit of the 8+H head, 600 sampled bits and bits at the 2 KiB/4 KiB/64 KiB buffer edges), bursts of 2-32 bits at every head start + 200 sampled starts, and every truncation length (sampled for large records) through parse_record, Reader random/sequential, iteration and Writer::open. A read may only return Ok with bytes identical to the original. Non-trivial: a flip in the length field was detected, or the record is larger than the 2 KiB optimistic buffer (crosses a buffer boundary). distinct = distinct rendered cases.".into()
    }
    fn assumptions(&self) -> Vec<String> {
        vec![
            "a flip in the zero padding beyond the last record is not corruption of a record and is not probed".into(),
            "CRC collisions (2^-32 per multi-bit corruption outside the burst guarantee) would be reported as violations; none is expected at these case counts".into(),
            "file-backed reader paths are probed for every head bit/burst/truncation and a stride of body bits; parse_record sees every enumerated image".into(),
        ]
    }
    fn plan(&self, tier: Tier) -> Plan {
        Plan {
            cases: if tier == Tier::Quick { 9600 } else { 96_000 },
            max_tape: 40,
            shard_cases: if tier == Tier::Quick { 100 } else { 400 },
            max_shrink_iters: 300,
            shard_timeout_s: 900,
            ..Plan::default()
        }
    }
    fn abort_is_violation(&self) -> bool {
        true
    }
    fn run_case(&self, t: &mut Tape, _env: &Env) -> CaseOut {
        let case = c17_gen(t);
        let mut out = CaseOut::default();
        out.set_sample(json!({"H": case.h, "start": case.start, "records": case.recs.iter().map(|r| r.render()).collect::<Vec<_>>(), "target": case.target}));
        out.class(&format!("H={}", case.h));
        if case.recs[case.target].compress && case.recs[case.target].len >= 128 {
            out.class("target-compressed");
        }
        if case.recs[case.target].len > 4096 {
            out.class("target-large");
        }
        with_h!(case.h, c17_run, &case, &mut out);
        out
    }
}

// ------------------------------------------------------------------------------------------
// C18

pub struct C18;

#[derive(Clone, Debug)]
enum Op18 {
    Append(RecSpec),
    FlushWriter,
    Sync,
    SetLen(usize),
    ReplaceHeader { reader: usize, rec: usize, seed: u32 },
    ReadRandom { reader: usize, rec: usize },
    ReadSeq { reader: usize, rec: usize },
    Iter { reader: usize, from: usize },
    CloneReader { reader: usize },
}

fn c18_gen(t: &mut Tape) -> (usize, Vec<Op18>) {
    let h = *t.pick(&HS);
    let mut ops = Vec::new();
    while t.next_slot() {
        let op = match t.weighted(&[6, 1, 4, 1, 1, 2, 4, 2, 1]) {
            0 => Op18::Append(gen_rec(t, true)),
            1 => Op18::FlushWriter,
            2 => Op18::Sync,
            3 => Op18::SetLen(t.usize_below(64)),
            4 => Op18::ReplaceHeader { reader: t.usize_below(4), rec: t.usize_below(64), seed: t.raw() },
            5 => Op18::ReadRandom { reader: t.usize_below(4), rec: t.usize_below(64) },
            6 => Op18::ReadSeq { reader: t.usize_below(4), rec: t.usize_below(64) },
            7 => Op18::Iter { reader: t.usize_below(4), from: t.usize_below(64) },
            _ => Op18::CloneReader { reader: t.usize_below(4) },
        };
        ops.push(op);
    }
    (h, ops)
}

struct MRec {
    offset: u64,
    len: usize,
    header: Vec<u8>,
    /// header before the last replacement done through *another* reader (sequential caches of
    /// other readers may legitimately still hold it)
    alt_headers: Vec<Vec<u8>>,
    data: Vec<u8>,
}

fn c18_run<const H: usize>(ops: &[Op18], env: &Env, out: &mut CaseOut, rendered: &mut Vec<Value>) {
    let scratch = Scratch::new("c18");
    let path = scratch.path().join("seg");
    let seg_size = 2 * 1024 * 1024;
    let start = 32u64;
    let mut w = Writer::<H>::create(&path, seg_size, start).unwrap();
    let flushed = w.flushed_offset();
    let mut readers: Vec<Reader<H>> = vec![Reader::<H>::open(&path, Some(flushed.clone())).unwrap()];
    // per reader: has it done a sequential read since the last flush-offset change?
    let mut seq_used_at: Vec<Option<u64>> = vec![None];
    let mut recs: Vec<MRec> = Vec::new(); // all records currently in the log (flushed or not)
    let mut flushed_n = 0usize; // records[..flushed_n] are flushed
    let mut stale_window = false; // a reader cached before a later sync
    let mut setlen_then_append = false;
    let mut had_setlen = false;
    let mut reads = 0u64;
    let avoid_setlen_stale = env.avoid("C18/read-seq/stale-after-set_len");

    let boundary = |recs: &Vec<MRec>, i: usize| -> u64 {
        if i < recs.len() { recs[i].offset } else { recs.last().map(|r| r.offset + r.len as u64).unwrap_or(start) }
    };

    for op in ops {
        rendered.push(json!(format!("{op:?}")));
        let last = rendered.len() - 1;
        match op {
            Op18::Append(r) => {
                if r.compress {
                    w.enable_compression()
                } else {
                    w.disable_compression()
                }
                let hdr = r.header::<H>();
                let data = r.data();
                match w.append(&hdr, &data) {
                    Ok((offset, len)) => {
                        let expect = boundary(&recs, recs.len());
                        if offset != expect {
                            out.fail("C18/append/offset", format!("append landed at {offset}, model expects {expect}"));
                            return;
                        }
                        recs.push(MRec { offset, len, header: hdr.to_vec(), alt_headers: vec![], data });
                        if had_setlen {
                            setlen_then_append = true;
                        }
                        rendered[last] = json!({"append": r.render()});
                    }
                    Err(seglog::write::WriteError::SegmentFull { .. }) => {
                        rendered[last] = json!("append(full)");
                    }
                    Err(e) => {
                        out.fail("C18/append/error", format!("{e}"));
                        return;
                    }
                }
            }
            Op18::FlushWriter => {
                w.flush_writer().unwrap();
                rendered[last] = json!("flush_writer");
            }
            Op18::Sync => {
                w.sync().unwrap();
                if flushed_n != recs.len() && seq_used_at.iter().any(|s| s.is_some()) {
                    stale_window = true;
                }
                flushed_n = recs.len();
                rendered[last] = json!("sync");
            }
            Op18::SetLen(i) => {
                if recs.is_empty() {
                    rendered.pop();
                    continue;
                }
                let i = i % (recs.len() + 1);
                let off = boundary(&recs, i);
                if avoid_setlen_stale && i < recs.len() && seq_used_at.iter().any(|s| s.is_some()) {
                    out.count("excluded_known", 1);
                    continue;
                }
                if let Err(e) = w.set_len(off) {
                    out.fail("C18/set_len/error", format!("{e}"));
                    return;
                }
                if off < boundary(&recs, recs.len()) {
                    recs.truncate(i);
                    flushed_n = recs.len();
                    had_setlen = true;
                }
                rendered[last] = json!({"set_len_to_record": i});
            }
            Op18::CloneReader { reader } => {
                if readers.len() < 4 {
                    let r = readers[reader % readers.len()].try_clone().unwrap();
                    readers.push(r);
                    seq_used_at.push(None);
                    rendered[last] = json!({"clone_reader": reader % (readers.len() - 1)});
                }
            }
            Op18::ReplaceHeader { reader, rec, seed } => {
                if flushed_n == 0 {
                    rendered.pop();
                    continue;
                }
                let ri = reader % readers.len();
                let i = rec % flushed_n;
                let v = expand_bytes(*seed as u64, H);
                let mut nh = [0u8; H];
                nh.copy_from_slice(&v);
                match readers[ri].replace_header(recs[i].offset, nh) {
                    Ok(()) => {
                        let old = std::mem::replace(&mut recs[i].header, nh.to_vec());
                        recs[i].alt_headers.push(old);
                    }
                    Err(e) => {
                        out.fail("C18/replace_header/error", format!("replace_header on flushed record {i} at {} failed: {e}", recs[i].offset));
                        return;
                    }
                }
                // the replacing reader itself must see the new header on every path
                for (hint, name) in [(ReadHint::Sequential, "seq"), (ReadHint::Random, "random")] {
                    match readers[ri].read_record(recs[i].offset, hint) {
                        Ok(r) if r.header == recs[i].header.as_slice() && r.data == recs[i].data.as_slice() => {}
                        Ok(r) => {
                            out.fail(format!("C18/replace_header/own-reader-stale-{name}"), format!("after replace_header the same reader returns header {:?}, expected {:?}", r.header, recs[i].header));
                            return;
                        }
                        Err(e) => {
                            out.fail(format!("C18/replace_header/own-reader-error-{name}"), format!("{e}"));
                            return;
                        }
                    }
                }
                seq_used_at[ri] = Some(flushed.load());
                rendered[last] = json!({"replace_header": {"reader": ri, "record": i}});
            }
            Op18::ReadRandom { reader, rec } | Op18::ReadSeq { reader, rec } => {
                let seq = matches!(op, Op18::ReadSeq { .. });
                let ri = reader % readers.len();
                let i = rec % (recs.len() + 1);
                let off = boundary(&recs, i);
                let hint = if seq { ReadHint::Sequential } else { ReadHint::Random };
                let name = if seq { "read-seq" } else { "read-random" };
                reads += 1;
                let res = catch_unwind(AssertUnwindSafe(|| readers[ri].read_record(off, hint).map(|r| (r.header.to_vec(), r.data.to_vec(), r.len))));
                let res = match res {
                    Ok(r) => r,
                    Err(_) => {
                        out.fail(format!("C18/{name}/panic"), format!("read at {off} panicked"));
                        return;
                    }
                };
                if i < flushed_n {
                    match res {
                        Ok((h, d, l)) => {
                            let hdr_ok = h == recs[i].header || (seq && recs[i].alt_headers.contains(&h));
                            if !(hdr_ok && d == recs[i].data && l == recs[i].len) {
                                let sig = if had_setlen { "stale-after-set_len" } else { "wrong-bytes" };
                                out.fail(format!("C18/{name}/{sig}"), format!("reader {ri} at flushed record {i} (offset {off}) returned different bytes than written there (data len {} vs {})", d.len(), recs[i].data.len()));
                                return;
                            }
                        }
                        Err(e) => {
                            let sig = if had_setlen { "error-after-set_len" } else if seq { "error-on-flushed-record" } else { "error-on-flushed-record" };
                            out.fail(format!("C18/{name}/{sig}"), format!("reader {ri} at flushed record {i} (offset {off}, flushed offset {}) failed: {e}", flushed.load()));
                            return;
                        }
                    }
                } else {
                    // at or beyond the flushed offset: nothing may be returned
                    if let Ok((_, d, _)) = res {
                        out.fail(format!("C18/{name}/returned-unflushed"), format!("reader {ri} returned {} bytes at offset {off} which is not below the flushed offset {}", d.len(), flushed.load()));
                        return;
                    }
                }
                if seq {
                    seq_used_at[ri] = Some(flushed.load());
                }
                rendered[last] = json!({name: {"reader": ri, "record": i}});
            }
            Op18::Iter { reader, from } => {
                let ri = reader % readers.len();
                let i = from % (recs.len() + 1);
                let off = boundary(&recs, i);
                reads += 1;
                let mut k = i;
                let mut it = readers[ri].iter(off);
                loop {
                    let r = catch_unwind(AssertUnwindSafe(|| it.next_record().map(|o| o.map(|r| (r.offset, r.header.to_vec(), r.data.to_vec())))));
                    match r {
                        Err(_) => {
                            out.fail("C18/iter/panic", format!("iteration from {off} panicked"));
                            return;
                        }
                        Ok(Ok(Some((o, h, d)))) => {
                            if k >= flushed_n {
                                out.fail("C18/iter/returned-unflushed", format!("iteration from record {i} yielded a record at {o} beyond the {flushed_n} flushed records"));
                                return;
                            }
                            let hdr_ok = h == recs[k].header || recs[k].alt_headers.contains(&h);
                            if o != recs[k].offset || !hdr_ok || d != recs[k].data {
                                let sig = if had_setlen { "stale-after-set_len" } else { "wrong-record" };
                                out.fail(format!("C18/iter/{sig}"), format!("iteration from record {i}: element {k} at {o} differs from the record written at {}", recs[k].offset));
                                return;
                            }
                            k += 1;
                        }
                        Ok(Ok(None)) => break,
                        Ok(Err(e)) => {
                            let sig = if had_setlen { "error-after-set_len" } else { "error" };
                            out.fail(format!("C18/iter/{sig}"), format!("iteration from record {i} failed at element {k}: {e}"));
                            return;
                        }
                    }
                }
                if k != flushed_n && i <= flushed_n {
                    let sig = if had_setlen { "short-after-set_len" } else { "short" };
                    out.fail(format!("C18/iter/{sig}"), format!("iteration from record {i} ended after record {k}, but {flushed_n} records are flushed (flushed offset {})", flushed.load()));
                    return;
                }
                seq_used_at[ri] = Some(flushed.load());
                rendered[last] = json!({"iter": {"reader": ri, "from": i}});
            }
        }
    }
    out.count("reads", reads);
    out.nontrivial = (stale_window || setlen_then_append) && reads > 0;
    if stale_window {
        out.class("read-ahead-filled-before-later-sync");
    }
    if setlen_then_append {
        out.class("set_len-then-append");
    }
}

impl Check for C18 {
    fn id(&self) -> &'static str {
        "C18"
    }
    fn level(&self) -> &'static str {
        "exploration"
    }
    fn rule(&self) -> String {
        "case = header size H + a history of 4-40 ops on one 512 KiB segment: append (size/content/compression per record), flush_writer (write(2) only), sync, set_len(to an earlier record boundary), replace_header, random/sequential reads, iteration from a boundary, reader clone; 1-4 long-lived readers share the writer's FlushedOffset. Model = list of records with a flushed prefix. Oracle: read at a flushed record returns exactly its bytes; read/iteration never returns anything at or beyond the flushed offset; iteration from a boundary yields exactly the flushed records from there. Non-trivial: a reader performed a sequential read/iteration (filling its read-ahead buffer) before a later sync published more records, or an append followed a set_len, and the history contains reads.".into()
    }
    fn assumptions(&self) -> Vec<String> {
        vec![
            "reads are issued only at record boundaries of the current log (the API contract)".into(),
            "after replace_header through reader A, a sequential read through another reader B may still return the previous header (B's private read-ahead cache; the statement only covers the reader that was used); data bytes must always match".into(),
        ]
    }
    fn plan(&self, tier: Tier) -> Plan {
        Plan {
            cases: if tier == Tier::Quick { 240_000 } else { 2_400_000 },
            max_tape: 10,
            min_slots: 5,
            max_slots: 41,
            shard_cases: if tier == Tier::Quick { 7500 } else { 25_000 },
            max_shrink_iters: 3000,
            ..Plan::default()
        }
    }
    fn abort_is_violation(&self) -> bool {
        true
    }
    fn run_case(&self, t: &mut Tape, env: &Env) -> CaseOut {
        let (h, ops) = c18_gen(t);
        let mut out = CaseOut::default();
        let mut rendered = Vec::new();
        with_h!(h, c18_run, &ops, env, &mut out, &mut rendered);
        out.set_sample(json!({"H": h, "ops": rendered}));
        out
    }
}
