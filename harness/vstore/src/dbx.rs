//! Helpers around the real `sierradb` embedded API: deterministic ids, configuration, open.

use std::path::Path;
use std::time::Duration;

use serde::{Deserialize, Serialize};
use sierradb::database::{Database, DatabaseBuilder};
use sierradb::error::DatabaseError;
use uuid::Uuid;
use vlib::Tape;

pub const MIN_SEGMENT: usize = 128 * 1024;

#[derive(Clone, Debug, Serialize, Deserialize, PartialEq)]
pub struct DbCfg {
    pub segment_size: usize,
    pub compression: bool,
    pub buckets: u16,
    pub writer_threads: u16,
    pub partitions: u16,
    pub sync_interval_ms: u64,
    pub sync_idle_ms: u64,
    pub max_batch: usize,
    pub min_sync_bytes: usize,
}

impl DbCfg {
    pub fn simple() -> DbCfg {
        DbCfg {
            segment_size: MIN_SEGMENT,
            compression: false,
            buckets: 1,
            writer_threads: 1,
            partitions: 1,
            sync_interval_ms: 0,
            sync_idle_ms: 0,
            max_batch: 50,
            min_sync_bytes: 4096,
        }
    }

    /// Configuration space of the store checks. First alternatives are the simplest.
    pub fn generate(t: &mut Tape) -> DbCfg {
        let segment_size = match t.weighted(&[6, 2, 1, 1]) {
            0 => MIN_SEGMENT,
            1 => MIN_SEGMENT + t.below(64 * 1024) as usize,
            2 => 256 * 1024,
            _ => 1024 * 1024,
        };
        let compression = t.bool();
        let buckets = [1u16, 2, 3, 4][t.weighted(&[5, 3, 1, 2])];
        let writer_threads = {
            let divs: Vec<u16> = (1..=buckets).filter(|d| buckets % d == 0).collect();
            *t.pick(&divs)
        };
        let partitions = buckets * (*t.pick(&[1u16, 2, 3]));
        // "lazy" profile: nothing but the timer triggers a sync, so acknowledgements really wait
        let lazy = t.chance(2, 5);
        let (sync_interval_ms, sync_idle_ms, max_batch, min_sync_bytes) = if lazy {
            let i = *t.pick(&[2u64, 1, 5]);
            (i, i.max(*t.pick(&[0u64, 5, 20])), 1000usize, usize::MAX / 2)
        } else {
            let sync_interval_ms = *t.pick(&[0u64, 1, 2, 5]);
            let sync_idle_ms = sync_interval_ms.max(*t.pick(&[0u64, 5, 20]));
            let max_batch = *t.pick(&[50usize, 1, 3, 1000]);
            let min_sync_bytes = *t.pick(&[4096usize, 1, 64 * 1024, usize::MAX / 2]);
            (sync_interval_ms, sync_idle_ms, max_batch, min_sync_bytes)
        };
        DbCfg {
            segment_size,
            compression,
            buckets,
            writer_threads,
            partitions,
            sync_interval_ms,
            sync_idle_ms,
            max_batch,
            min_sync_bytes,
        }
    }

    pub fn builder(&self) -> DatabaseBuilder {
        let mut b = DatabaseBuilder::new();
        b.segment_size_bytes(self.segment_size)
            .total_buckets(self.buckets)
            .bucket_ids_from_range(0..self.buckets)
            .writer_threads(self.writer_threads)
            .reader_threads(2)
            .sync_interval(Duration::from_millis(self.sync_interval_ms))
            .sync_idle_interval(Duration::from_millis(self.sync_idle_ms))
            .max_batch_size(self.max_batch)
            .min_sync_bytes(self.min_sync_bytes)
            .cache_capacity_bytes(8 * 1024 * 1024)
            .compression(self.compression);
        b
    }

    pub fn open(&self, dir: &Path) -> Result<Database, DatabaseError> {
        self.builder().open(dir)
    }

    pub fn bucket_of(&self, partition_id: u16) -> u16 {
        partition_id % self.buckets
    }
}

/// A 128-bit id with the documented layout: `[ts:48][rand:12][ver=7:4][var=10:2][hash:16][rand:46]`.
/// `n` is a per-run counter that keeps ids unique; `salt` only varies the random bits.
pub fn make_id(hash: u16, n: u64, salt: u64) -> Uuid {
    let ts48: u128 = (0x0190_0000_0000u128 + (n as u128)) & 0xFFFF_FFFF_FFFF;
    let rand12: u128 = (salt & 0xFFF) as u128;
    let rand46: u128 = ((salt >> 12) ^ n.wrapping_mul(0x9E37_79B9_7F4A_7C15)) as u128 & ((1u128 << 46) - 1);
    let v: u128 = (ts48 << 80) | (rand12 << 68) | (0x7u128 << 64) | (0x2u128 << 62) | ((hash as u128) << 46) | rand46;
    Uuid::from_bytes(v.to_be_bytes())
}

/// Partition key number `k` for a database with `partitions` partitions: its embedded hash is
/// congruent to `k` modulo `partitions`, and keys `k` and `k + partitions` share a partition.
pub fn key_hash(k: u16, partitions: u16) -> u16 {
    // spread hashes over the 16-bit space while keeping hash % partitions == k % partitions
    let p = partitions.max(1) as u32;
    let base = (k as u32) % p;
    let mult = ((k as u32) / p) * 977 + ((k as u32) % p) * 131;
    let span = (65536 - base - 1) / p; // max multiplier keeping base + m*p <= 65535
    let m = if span == 0 { 0 } else { mult % (span + 1) };
    (base + m * p) as u16
}

pub fn partition_key(k: u16, partitions: u16) -> Uuid {
    make_id(key_hash(k, partitions), 0xABCD_0000 + k as u64, 0x5EED)
}

pub fn block_on<F: std::future::Future>(f: F) -> F::Output {
    thread_local! {
        static RT: tokio::runtime::Runtime = tokio::runtime::Builder::new_multi_thread()
            .worker_threads(2)
            .enable_all()
            .build()
            .unwrap();
    }
    RT.with(|rt| rt.block_on(f))
}
