//! One libFuzzer target for every storage check: `VERIF_FUZZ_ID=<ID>` selects the check, the
//! input bytes are the slotted choice tape (vlib::tape_from_fuzz_bytes), the case runs through
//! the same generator, interpreter and oracle as the seeded tiers.
#![no_main]

use std::sync::{Mutex, OnceLock};

use libfuzzer_sys::fuzz_target;
use vlib::{Check, FuzzCtx};

struct State {
    check: &'static dyn Check,
    ctx: Mutex<FuzzCtx>,
}

static STATE: OnceLock<State> = OnceLock::new();

fn state() -> &'static State {
    STATE.get_or_init(|| {
        let id = std::env::var("VERIF_FUZZ_ID").expect("VERIF_FUZZ_ID");
        let check = vstore::checks().into_iter().find(|c| c.id() == id).expect("unknown check id");
        // replaces libfuzzer-sys's abort-on-panic hook: panics of the code under test are
        // recorded and judged by the oracles (catch_unwind), exactly as in the seeded tiers
        let ctx = FuzzCtx::new(check);
        State { check, ctx: Mutex::new(ctx) }
    })
}

fuzz_target!(|data: &[u8]| {
    let st = state();
    let mut ctx = st.ctx.lock().unwrap_or_else(|e| e.into_inner());
    if ctx.one(st.check, data).is_some() {
        // keep the input as a libFuzzer artifact and stop the campaign
        std::process::abort();
    }
});
