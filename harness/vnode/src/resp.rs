//! C22: the RESP API of a single node against the reference event-store model.

use std::collections::{BTreeMap, HashMap};
use std::sync::OnceLock;
use std::time::Duration;

use bytes::{Bytes, BytesMut};
use redis_protocol::resp3::decode::complete::decode_bytes_mut;
use redis_protocol::resp3::types::BytesFrame;
use serde_json::{Value, json};
use sierradb::id::{NAMESPACE_PARTITION_KEY, uuid_to_partition_hash};
use sierradb_server::server::Server;
use tokio::io::{AsyncReadExt, AsyncWriteExt};
use tokio::net::TcpStream;
use tokio_util::sync::CancellationToken;
use uuid::Uuid;
use vlib::{CaseOut, Check, Env, Plan, Scratch, Tape, Tier};

use crate::nodeh::{BUCKETS, Node, PARTITIONS, block_on, make_id, next_n, node, open_db, rt};

pub struct C22;

static SERVER: OnceLock<(u16, bool)> = OnceLock::new();

/// Start (once per process) the RESP server in front of this process's node.
fn server(n: &'static Node, strict: bool) -> (u16, bool) {
    *SERVER.get_or_init(|| {
        let port = {
            let l = std::net::TcpListener::bind("127.0.0.1:0").unwrap();
            l.local_addr().unwrap().port()
        };
        let boot = Scratch::new("resp-boot");
        let db = open_db(boot.path());
        let caches = db.reader_pool().caches().clone();
        std::mem::forget(boot);
        let srv = Server::new(n.cluster.clone(), caches, PARTITIONS, 1 << 20, strict, CancellationToken::new());
        rt().spawn(async move {
            let _ = srv.listen(("127.0.0.1", port)).await;
        });
        // wait until it accepts
        for _ in 0..200 {
            if std::net::TcpStream::connect(("127.0.0.1", port)).is_ok() {
                break;
            }
            std::thread::sleep(Duration::from_millis(10));
        }
        (port, strict)
    })
}

pub struct Client {
    stream: TcpStream,
    buf: BytesMut,
}

impl Client {
    pub async fn connect(port: u16) -> std::io::Result<Client> {
        let stream = TcpStream::connect(("127.0.0.1", port)).await?;
        stream.set_nodelay(true)?;
        Ok(Client { stream, buf: BytesMut::new() })
    }

    pub async fn send(&mut self, args: &[Vec<u8>]) -> std::io::Result<()> {
        let mut out = Vec::new();
        out.extend_from_slice(format!("*{}\r\n", args.len()).as_bytes());
        for a in args {
            out.extend_from_slice(format!("${}\r\n", a.len()).as_bytes());
            out.extend_from_slice(a);
            out.extend_from_slice(b"\r\n");
        }
        self.stream.write_all(&out).await
    }

    /// Next frame (reply or push). `None` = connection closed by the server.
    pub async fn recv(&mut self, wait: Duration) -> Result<Option<BytesFrame>, String> {
        let deadline = tokio::time::Instant::now() + wait;
        loop {
            match decode_bytes_mut(&mut self.buf) {
                Ok(Some((frame, _, _))) => return Ok(Some(frame)),
                Ok(None) => {}
                Err(e) => return Err(format!("undecodable reply: {e:?}")),
            }
            let mut tmp = [0u8; 16384];
            match tokio::time::timeout_at(deadline, self.stream.read(&mut tmp)).await {
                Err(_) => return Err("timeout".into()),
                Ok(Ok(0)) => return Ok(None),
                Ok(Ok(k)) => self.buf.extend_from_slice(&tmp[..k]),
                Ok(Err(_)) => return Ok(None),
            }
        }
    }

    /// Send a command and return its (non-push) reply.
    pub async fn call(&mut self, args: &[Vec<u8>]) -> Result<Option<BytesFrame>, String> {
        self.send(args).await.map_err(|e| format!("send failed: {e}"))?;
        loop {
            match self.recv(Duration::from_secs(60)).await? {
                Some(BytesFrame::Push { .. }) => continue,
                other => return Ok(other),
            }
        }
    }
}

pub fn s(x: &str) -> Vec<u8> {
    x.as_bytes().to_vec()
}

pub fn as_map(f: &BytesFrame) -> Option<HashMap<String, &BytesFrame>> {
    match f {
        BytesFrame::Map { data, .. } => {
            let mut m = HashMap::new();
            for (k, v) in data {
                let key = match k {
                    BytesFrame::SimpleString { data, .. } | BytesFrame::BlobString { data, .. } => String::from_utf8_lossy(data).to_string(),
                    _ => continue,
                };
                m.insert(key, v);
            }
            Some(m)
        }
        _ => None,
    }
}
pub fn as_u64(f: &BytesFrame) -> Option<u64> {
    match f {
        BytesFrame::Number { data, .. } => (*data).try_into().ok(),
        _ => None,
    }
}
pub fn as_bytes(f: &BytesFrame) -> Option<Vec<u8>> {
    match f {
        BytesFrame::SimpleString { data, .. } | BytesFrame::BlobString { data, .. } => Some(data.to_vec()),
        _ => None,
    }
}
pub fn as_str(f: &BytesFrame) -> Option<String> {
    as_bytes(f).and_then(|b| String::from_utf8(b).ok())
}
pub fn is_err(f: &BytesFrame) -> Option<String> {
    match f {
        BytesFrame::SimpleError { data, .. } => Some(data.to_string()),
        BytesFrame::BlobError { data, .. } => Some(String::from_utf8_lossy(data).to_string()),
        _ => None,
    }
}

// ------------------------------------------------------------------------------------------
// model

#[derive(Clone, Debug)]
struct MEvent {
    id: Uuid,
    stream: String,
    name: String,
    key: Uuid,
    partition: u16,
    seq: u64,
    version: u64,
    ts_ms: Option<u64>,
    payload: Vec<u8>,
    metadata: Vec<u8>,
}

#[derive(Default)]
struct M {
    /// (bucket, stream) -> (key, events)
    streams: HashMap<(u16, String), (Uuid, Vec<usize>)>,
    partitions: BTreeMap<u16, Vec<usize>>,
    events: Vec<MEvent>,
}

#[derive(Clone, Debug)]
struct EvIn {
    stream: String,
    name: String,
    expect: Option<String>, // None = not given (any)
    ts_ms: Option<u64>,
    payload: Vec<u8>,
    metadata: Vec<u8>,
    event_id: Option<Uuid>,
}

fn key_of(stream_idx: usize, name: &str) -> (Uuid, bool) {
    // streams with an odd index always use an explicit partition key
    if stream_idx % 2 == 1 {
        (make_id(100 + stream_idx as u16, 0xEE00 + stream_idx as u64, 5), true)
    } else {
        (Uuid::new_v5(&NAMESPACE_PARTITION_KEY, name.as_bytes()), false)
    }
}

const STREAMS: [&str; 5] = ["acct-1", "acct-2", "order", "x", "cart-with-a-long-identifier-000000000000000000000000000000000064"];

impl M {
    fn cur(&self, bucket: u16, stream: &str) -> Option<u64> {
        self.streams.get(&(bucket, stream.to_string())).map(|s| s.1.len() as u64 - 1)
    }
    fn expectation_holds(exp: &Option<String>, cur: Option<u64>) -> bool {
        match exp.as_deref() {
            None | Some("any") => true,
            Some("exists") => cur.is_some(),
            Some("empty") => cur.is_none(),
            Some(n) => n.parse::<u64>().ok() == cur && cur.is_some(),
        }
    }
    /// Some(assignments) when the transaction is acceptable
    fn decide(&self, key: Uuid, events: &[EvIn], strict: bool) -> Result<Vec<u64>, String> {
        let partition = uuid_to_partition_hash(key) % PARTITIONS;
        let bucket = partition % BUCKETS;
        let mut in_tx: HashMap<String, u64> = HashMap::new();
        let mut out = Vec::new();
        for e in events {
            if strict && !matches!(e.expect.as_deref(), Some(x) if x != "any" && x != "exists") {
                return Err("strict versioning rejects any/exists".into());
            }
            let cur = match in_tx.get(&e.stream) {
                Some(n) => Some(*n - 1),
                None => {
                    if let Some((k, _)) = self.streams.get(&(bucket, e.stream.clone())) {
                        if *k != key {
                            return Err("partition key mismatch".into());
                        }
                    }
                    self.cur(bucket, &e.stream)
                }
            };
            if !Self::expectation_holds(&e.expect, cur) {
                return Err("wrong expected version".into());
            }
            if let Some(ms) = e.ts_ms {
                match ms.checked_mul(1_000_000) {
                    None => return Err("timestamp overflow".into()),
                    Some(ns) if ns >> 63 == 1 => return Err("timestamp out of range".into()),
                    _ => {}
                }
            }
            if e.name.len() > 255 {
                return Err("event name too long".into());
            }
            if let Some(id) = e.event_id {
                if uuid_to_partition_hash(id) != uuid_to_partition_hash(key) {
                    return Err("event id does not embed the partition hash".into());
                }
            }
            let v = cur.map(|c| c + 1).unwrap_or(0);
            out.push(v);
            in_tx.insert(e.stream.clone(), v + 1);
        }
        Ok(out)
    }
    fn apply(&mut self, key: Uuid, events: &[EvIn], versions: &[u64], ids: &[Uuid]) -> (u64, u64) {
        let partition = uuid_to_partition_hash(key) % PARTITIONS;
        let bucket = partition % BUCKETS;
        let first = self.partitions.get(&partition).map(|p| p.len() as u64).unwrap_or(0);
        for (i, e) in events.iter().enumerate() {
            let idx = self.events.len();
            self.events.push(MEvent { id: ids[i], stream: e.stream.clone(), name: e.name.clone(), key, partition, seq: first + i as u64, version: versions[i], ts_ms: e.ts_ms, payload: e.payload.clone(), metadata: e.metadata.clone() });
            self.partitions.entry(partition).or_default().push(idx);
            self.streams.entry((bucket, e.stream.clone())).or_insert_with(|| (key, Vec::new())).1.push(idx);
        }
        (first, first + events.len() as u64 - 1)
    }
}

fn check_event_frame(f: &BytesFrame, m: &MEvent) -> Option<String> {
    let Some(map) = as_map(f) else { return Some("event is not a map".into()) };
    macro_rules! field {
        ($k:expr) => {
            match map.get($k) {
                Some(v) => *v,
                None => return Some(format!("event map lacks '{}'", $k)),
            }
        };
    }
    if as_str(field!("event_id")) != Some(m.id.to_string()) {
        return Some(format!("event_id {:?} != {}", as_str(field!("event_id")), m.id));
    }
    if as_str(field!("partition_key")) != Some(m.key.to_string()) {
        return Some("partition_key differs".into());
    }
    if as_u64(field!("partition_id")) != Some(m.partition as u64) {
        return Some(format!("partition_id {:?} != {}", as_u64(field!("partition_id")), m.partition));
    }
    if as_u64(field!("partition_sequence")) != Some(m.seq) {
        return Some(format!("partition_sequence {:?} != {}", as_u64(field!("partition_sequence")), m.seq));
    }
    if as_u64(field!("stream_version")) != Some(m.version) {
        return Some(format!("stream_version {:?} != {}", as_u64(field!("stream_version")), m.version));
    }
    if as_str(field!("stream_id")).as_deref() != Some(m.stream.as_str()) {
        return Some("stream_id differs".into());
    }
    if as_str(field!("event_name")).as_deref() != Some(m.name.as_str()) {
        return Some("event_name differs".into());
    }
    if as_bytes(field!("payload")).as_deref() != Some(m.payload.as_slice()) {
        return Some("payload differs".into());
    }
    if as_bytes(field!("metadata")).as_deref() != Some(m.metadata.as_slice()) {
        return Some("metadata differs".into());
    }
    if let Some(ms) = m.ts_ms {
        if as_u64(field!("timestamp")) != Some(ms) {
            return Some(format!("timestamp {:?} != {ms}", as_u64(field!("timestamp"))));
        }
    }
    None
}

#[derive(Clone, Debug)]
enum Op {
    Append { stream: usize, expect: u8, ts: u8, payload: u8, with_id: bool, name_len: u8 },
    MAppend { key_stream: usize, events: Vec<(usize, u8, u8)> },
    Get { pick: u32, unknown: bool },
    Scan { stream: usize, start: u8, end: u8, count: u8, page: bool },
    PScan { partition: u16, by_key: bool, start: u8, end: u8, count: u8, page: bool },
    Ver { stream: usize },
    Seq { partition: u16 },
    Bad { kind: u8 },
    Sub { stream: usize },
}

fn gen_ops(t: &mut Tape) -> Vec<Op> {
    let mut ops = Vec::new();
    while t.next_slot() {
        let op = match t.weighted(&[8, 4, 2, 4, 4, 2, 2, 2, 1]) {
            0 => Op::Append { stream: t.usize_below(STREAMS.len()), expect: t.below(6) as u8, ts: t.below(6) as u8, payload: t.below(4) as u8, with_id: t.chance(1, 3), name_len: t.below(4) as u8 },
            1 => {
                let k = 1 + t.usize_below(4);
                // all streams of one transaction share the key of `key_stream` (same parity)
                let key_stream = t.usize_below(STREAMS.len());
                Op::MAppend { key_stream, events: (0..k).map(|_| (t.usize_below(3), t.below(6) as u8, t.below(6) as u8)).collect() }
            }
            2 => Op::Get { pick: t.raw(), unknown: t.chance(1, 5) },
            3 => Op::Scan { stream: t.usize_below(STREAMS.len()), start: t.below(6) as u8, end: t.below(7) as u8, count: t.below(5) as u8, page: t.bool() },
            4 => Op::PScan { partition: t.below(PARTITIONS as u64) as u16, by_key: t.chance(1, 3), start: t.below(6) as u8, end: t.below(7) as u8, count: t.below(5) as u8, page: t.bool() },
            5 => Op::Ver { stream: t.usize_below(STREAMS.len()) },
            6 => Op::Seq { partition: t.below(PARTITIONS as u64) as u16 },
            7 => Op::Bad { kind: t.below(8) as u8 },
            _ => Op::Sub { stream: t.usize_below(STREAMS.len()) },
        };
        ops.push(op);
    }
    ops
}

fn expect_text(kind: u8, cur: Option<u64>) -> Option<String> {
    match kind {
        0 => Some(cur.map(|c| c.to_string()).unwrap_or_else(|| "empty".into())), // right
        1 => None,                                                                // not given = any
        2 => Some("any".into()),
        3 => Some("exists".into()),
        4 => Some("empty".into()),
        _ => Some(cur.map(|c| (c + 2).to_string()).unwrap_or_else(|| "0".into())), // wrong
    }
}

fn ts_of(kind: u8, n: u64) -> Option<u64> {
    match kind {
        0 | 1 => None,
        2 => Some(1_700_000_000_000 + n),
        3 => Some(0),
        4 => Some(9_223_372_036_854), // * 1e6 just below 2^63
        _ => Some(*[9_223_372_036_855u64, u64::MAX / 1000, u64::MAX].get((n % 3) as usize).unwrap()),
    }
}

fn pos(kind: u8, last: Option<u64>) -> Option<u64> {
    // None = "-" / "+"
    match kind {
        0 => None,
        1 => Some(0),
        2 => Some(last.map(|l| l / 2).unwrap_or(1)),
        3 => last.or(Some(0)),
        4 => Some(last.map(|l| l + 1).unwrap_or(3)),
        5 => Some(1),
        _ => Some(u64::MAX),
    }
}

impl Check for C22 {
    fn id(&self) -> &'static str {
        "C22"
    }
    fn level(&self) -> &'static str {
        "exploration"
    }
    fn rule(&self) -> String {
        "case = a history of 3-40 RESP commands sent over TCP to the real server in front of the in-process node (replication factor 1, strict versioning on or off per worker): EAPPEND (expected version right / absent / any / exists / empty / wrong; timestamps absent, normal, 0, just below and beyond the representable range; payload/metadata incl. binary; explicit event ids; event names up to 300 bytes), EMAPPEND (1-4 events over up to 3 streams of one key, repeating and creating streams), EGET (known/unknown), ESCAN and EPSCAN (start/end from -, +, 0, middle, last, beyond, u64::MAX; counts 0/1/2/3/default; by id or by key; optionally paged with the returned data until has_more is false), ESVER, EPSEQ, malformed requests, ESUB from 0. Oracle: every reply equals the reference model: per-event versions and sequences of appends, event contents field for field, scan contents in order with inclusive ranges, has_more never false while matching events remain (paging terminates and enumerates exactly the model), version/sequence values, an error frame (connection still usable, checked with PING) for invalid requests; a closed connection is a violation. An append acknowledged OK must be visible to the next read (checked strictly, then settled with a bounded wait). Non-trivial: history with an EMAPPEND that repeats or creates a stream and a paged scan.".into()
    }
    fn assumptions(&self) -> Vec<String> {
        vec![
            "every stream is always addressed with the same partition key (default v5 key for even stream indexes, a fixed explicit key for odd ones); key-mismatch handling is C02's subject".into(),
            "server-assigned values (event ids, timestamps when not given) are taken from the reply and must then stay stable".into(),
            "which error text is returned is not compared, only that an error frame is".into(),
        ]
    }
    fn plan(&self, tier: Tier) -> Plan {
        let quick = tier == Tier::Quick;
        Plan { cases: if quick { 2400 } else { 24_000 }, max_tape: 40, min_slots: 4, max_slots: 41, shard_cases: 10, shard_timeout_s: if quick { 300 } else { 900 }, max_shrink_iters: 150, ..Plan::default() }
    }
    fn abort_is_violation(&self) -> bool {
        true
    }
    fn run_case(&self, t: &mut Tape, env: &Env) -> CaseOut {
        let mut out = CaseOut::default();
        let hint = env.hint.unwrap_or(env.shard % 2);
        let n: &'static Node = node(1, 1000, 8000, 2000);
        let (port, strict) = server(n, hint == 1);
        out.hint = Some(if strict { 1 } else { 0 });
        let salt = t.raw() as u64;
        let ops = gen_ops(t);
        let scratch = Scratch::new("c22");
        let mut fail: Option<(String, String)> = None;
        let mut log: Vec<Value> = Vec::new();
        let mut had_mappend_special = false;
        let mut had_paged = false;
        block_on(async {
            let db = open_db(scratch.path());
            if let Err(e) = n.reset(db).await {
                fail = Some(("setup/reset".into(), e));
                return;
            }
            let mut c = match Client::connect(port).await {
                Ok(c) => c,
                Err(e) => {
                    fail = Some(("setup/connect".into(), format!("{e}")));
                    return;
                }
            };
            let mut m = M::default();
            macro_rules! violation {
                ($sig:expr, $($arg:tt)*) => {{ fail = Some(($sig.to_string(), format!($($arg)*))); return; }};
            }
            for op in &ops {
                match op {
                    Op::Append { stream, expect, ts, payload, with_id, name_len } => {
                        let sname = STREAMS[*stream].to_string();
                        let (key, explicit) = key_of(*stream, &sname);
                        let partition = uuid_to_partition_hash(key) % PARTITIONS;
                        let cur = m.cur(partition % BUCKETS, &sname);
                        let nn = next_n();
                        let ev = EvIn {
                            stream: sname.clone(),
                            name: match name_len { 0 | 1 => "Deposited".to_string(), 2 => "E".repeat(255), _ => "E".repeat(300) },
                            expect: expect_text(*expect, cur),
                            ts_ms: ts_of(*ts, nn),
                            payload: match payload { 0 => vec![], 1 => b"{\"amount\":5}".to_vec(), 2 => vec![0, 255, 13, 10, 36], _ => vec![b'z'; 5000] },
                            metadata: if payload % 2 == 1 { b"m".to_vec() } else { vec![] },
                            event_id: if *with_id { Some(make_id(uuid_to_partition_hash(key), nn, salt)) } else { None },
                        };
                        let mut args = vec![s("EAPPEND"), s(&ev.stream), s(&ev.name)];
                        if let Some(id) = ev.event_id {
                            args.push(s("EVENT_ID"));
                            args.push(s(&id.to_string()));
                        }
                        if explicit {
                            args.push(s("PARTITION_KEY"));
                            args.push(s(&key.to_string()));
                        }
                        if let Some(x) = &ev.expect {
                            args.push(s("EXPECTED_VERSION"));
                            args.push(s(x));
                        }
                        if let Some(ms) = ev.ts_ms {
                            args.push(s("TIMESTAMP"));
                            args.push(s(&ms.to_string()));
                        }
                        if !ev.payload.is_empty() {
                            args.push(s("PAYLOAD"));
                            args.push(ev.payload.clone());
                        }
                        if !ev.metadata.is_empty() {
                            args.push(s("METADATA"));
                            args.push(ev.metadata.clone());
                        }
                        let decision = m.decide(key, std::slice::from_ref(&ev), strict);
                        log.push(json!({"EAPPEND": {"stream": sname, "expect": ev.expect, "ts_ms": ev.ts_ms, "payload": ev.payload.len(), "name": ev.name.len(), "model": decision.as_ref().map(|_| "accept").unwrap_or("reject")}}));
                        let reply = match c.call(&args).await {
                            Ok(Some(f)) => f,
                            Ok(None) => violation!("connection-closed/eappend", "the server closed the connection instead of answering EAPPEND {}", log.last().unwrap()),
                            Err(e) => violation!("no-reply/eappend", "EAPPEND got no decodable reply: {e}"),
                        };
                        match (decision, is_err(&reply)) {
                            (Err(_), Some(_)) => {}
                            (Err(why), None) => violation!("eappend/accepted-invalid", "EAPPEND {} was accepted although the model rejects it ({why}): {reply:?}", log.last().unwrap()),
                            (Ok(_), Some(e)) => violation!("eappend/rejected-valid", "EAPPEND {} was rejected: {e}", log.last().unwrap()),
                            (Ok(vs), None) => {
                                let Some(map) = as_map(&reply) else { violation!("eappend/reply-shape", "EAPPEND reply is not a map: {reply:?}") };
                                let id = map.get("event_id").and_then(|f| as_str(f)).and_then(|x| Uuid::parse_str(&x).ok());
                                let Some(id) = id else { violation!("eappend/reply-shape", "EAPPEND reply lacks event_id") };
                                if let Some(want) = ev.event_id {
                                    if want != id {
                                        violation!("eappend/event-id", "EAPPEND returned event id {id}, {want} was given");
                                    }
                                }
                                let mut ev2 = ev.clone();
                                if ev2.ts_ms.is_none() {
                                    ev2.ts_ms = map.get("timestamp").and_then(|f| as_u64(f));
                                }
                                let (first, _) = m.apply(key, std::slice::from_ref(&ev2), &vs, &[id]);
                                if map.get("stream_version").and_then(|f| as_u64(f)) != Some(vs[0]) || map.get("partition_sequence").and_then(|f| as_u64(f)) != Some(first) || map.get("partition_id").and_then(|f| as_u64(f)) != Some(partition as u64) {
                                    violation!("eappend/wrong-version-or-sequence", "EAPPEND reported version {:?} sequence {:?} partition {:?}; the model assigns version {} sequence {first} partition {partition}", map.get("stream_version").and_then(|f| as_u64(f)), map.get("partition_sequence").and_then(|f| as_u64(f)), map.get("partition_id").and_then(|f| as_u64(f)), vs[0]);
                                }
                                // read-after-acknowledgement
                                let me = m.events.last().unwrap().clone();
                                match c.call(&[s("EGET"), s(&id.to_string())]).await {
                                    Ok(Some(f)) => {
                                        if matches!(f, BytesFrame::Null) {
                                            // settle (bounded) so one lag does not cascade
                                            let mut seen = false;
                                            for _ in 0..100 {
                                                tokio::time::sleep(Duration::from_millis(20)).await;
                                                if let Ok(Some(f2)) = c.call(&[s("EGET"), s(&id.to_string())]).await {
                                                    if !matches!(f2, BytesFrame::Null) {
                                                        seen = true;
                                                        break;
                                                    }
                                                }
                                            }
                                            violation!("read-after-ack/not-visible", "EGET right after the OK of EAPPEND returned null for event {id} (it {} within 2 s)", if seen { "became visible" } else { "did not become visible" });
                                        }
                                        if let Some(d) = check_event_frame(&f, &me) {
                                            violation!("eget/content", "EGET after EAPPEND: {d}");
                                        }
                                    }
                                    Ok(None) => violation!("connection-closed/eget", "connection closed on EGET"),
                                    Err(e) => violation!("no-reply/eget", "{e}"),
                                }
                            }
                        }
                    }
                    Op::MAppend { key_stream, events } => {
                        let parity = key_stream % 2;
                        let (key, _) = key_of(*key_stream, STREAMS[*key_stream]);
                        let partition = uuid_to_partition_hash(key) % PARTITIONS;
                        let bucket = partition % BUCKETS;
                        // streams of this transaction: names private to the key so they never collide
                        // with streams of another key
                        let mut evs: Vec<EvIn> = Vec::new();
                        let mut in_tx: HashMap<String, u64> = HashMap::new();
                        for (si, expect, ts) in events {
                            let sname = if *si == 0 { STREAMS[*key_stream].to_string() } else { format!("multi-{parity}-{key_stream}-{si}") };
                            let cur = match in_tx.get(&sname) {
                                Some(nv) => Some(*nv - 1),
                                None => m.cur(bucket, &sname),
                            };
                            let nn = next_n();
                            let e = EvIn { stream: sname.clone(), name: format!("Ev{si}"), expect: expect_text(*expect, cur), ts_ms: ts_of(*ts, nn), payload: format!("p{nn}").into_bytes(), metadata: vec![], event_id: None };
                            in_tx.insert(sname, cur.map(|c| c + 2).unwrap_or(1));
                            evs.push(e);
                        }
                        let repeats = {
                            let mut seen = std::collections::HashSet::new();
                            evs.iter().any(|e| !seen.insert(e.stream.clone()))
                        };
                        let creates = evs.iter().any(|e| m.cur(bucket, &e.stream).is_none());
                        let mut args = vec![s("EMAPPEND"), s(&key.to_string())];
                        for e in &evs {
                            args.push(s(&e.stream));
                            args.push(s(&e.name));
                            if let Some(x) = &e.expect {
                                args.push(s("EXPECTED_VERSION"));
                                args.push(s(x));
                            }
                            if let Some(ms) = e.ts_ms {
                                args.push(s("TIMESTAMP"));
                                args.push(s(&ms.to_string()));
                            }
                            args.push(s("PAYLOAD"));
                            args.push(e.payload.clone());
                        }
                        let decision = m.decide(key, &evs, strict);
                        log.push(json!({"EMAPPEND": {"events": evs.iter().map(|e| json!({"stream": e.stream, "expect": e.expect, "ts_ms": e.ts_ms})).collect::<Vec<_>>(), "model": decision.as_ref().map(|_| "accept").unwrap_or("reject")}}));
                        let reply = match c.call(&args).await {
                            Ok(Some(f)) => f,
                            Ok(None) => violation!("connection-closed/emappend", "the server closed the connection instead of answering EMAPPEND {} (repeats a stream: {repeats}, creates a stream: {creates})", log.last().unwrap()),
                            Err(e) => violation!("no-reply/emappend", "EMAPPEND got no decodable reply: {e}"),
                        };
                        match (decision, is_err(&reply)) {
                            (Err(_), Some(_)) => {}
                            (Err(why), None) => violation!("emappend/accepted-invalid", "EMAPPEND {} was accepted although the model rejects it ({why})", log.last().unwrap()),
                            (Ok(_), Some(e)) => violation!("emappend/rejected-valid", "EMAPPEND {} was rejected: {e}", log.last().unwrap()),
                            (Ok(vs), None) => {
                                if repeats || creates {
                                    had_mappend_special = true;
                                }
                                let Some(map) = as_map(&reply) else { violation!("emappend/reply-shape", "EMAPPEND reply is not a map") };
                                let infos: Vec<&BytesFrame> = match map.get("events") {
                                    Some(BytesFrame::Array { data, .. }) => data.iter().collect(),
                                    _ => violation!("emappend/reply-shape", "EMAPPEND reply lacks events"),
                                };
                                if infos.len() != evs.len() {
                                    violation!("emappend/reply-shape", "EMAPPEND reply lists {} events for {} sent", infos.len(), evs.len());
                                }
                                let mut ids = Vec::new();
                                let mut evs2 = evs.clone();
                                for (i, inf) in infos.iter().enumerate() {
                                    let Some(im) = as_map(inf) else { violation!("emappend/reply-shape", "event info is not a map") };
                                    let id = im.get("event_id").and_then(|f| as_str(f)).and_then(|x| Uuid::parse_str(&x).ok());
                                    let Some(id) = id else { violation!("emappend/reply-shape", "event info lacks event_id") };
                                    ids.push(id);
                                    if evs2[i].ts_ms.is_none() {
                                        evs2[i].ts_ms = im.get("timestamp").and_then(|f| as_u64(f));
                                    }
                                    let got_v = im.get("stream_version").and_then(|f| as_u64(f));
                                    if got_v != Some(vs[i]) || im.get("stream_id").and_then(|f| as_str(f)).as_deref() != Some(evs[i].stream.as_str()) {
                                        violation!("emappend/wrong-event-version", "EMAPPEND reported stream {:?} version {got_v:?} for event {i}; the model assigns {} version {} (versions of the whole transaction: {vs:?})", im.get("stream_id").and_then(|f| as_str(f)), evs[i].stream, vs[i]);
                                    }
                                }
                                let (first, last) = m.apply(key, &evs2, &vs, &ids);
                                if map.get("first_partition_sequence").and_then(|f| as_u64(f)) != Some(first) || map.get("last_partition_sequence").and_then(|f| as_u64(f)) != Some(last) {
                                    violation!("emappend/wrong-sequences", "EMAPPEND reported sequences {:?}..={:?}; the model assigns {first}..={last}", map.get("first_partition_sequence").and_then(|f| as_u64(f)), map.get("last_partition_sequence").and_then(|f| as_u64(f)));
                                }
                                // settle: wait until the last event is visible
                                let last_id = *ids.last().unwrap();
                                let mut visible = false;
                                for i in 0..100 {
                                    match c.call(&[s("EGET"), s(&last_id.to_string())]).await {
                                        Ok(Some(f)) if !matches!(f, BytesFrame::Null) => {
                                            visible = true;
                                            if i > 0 {
                                                violation!("read-after-ack/not-visible", "EGET right after the OK of EMAPPEND returned null for its last event (visible after {} ms)", i * 20);
                                            }
                                            break;
                                        }
                                        Ok(Some(_)) => tokio::time::sleep(Duration::from_millis(20)).await,
                                        Ok(None) => violation!("connection-closed/eget", "connection closed on EGET"),
                                        Err(e) => violation!("no-reply/eget", "{e}"),
                                    }
                                }
                                if !visible {
                                    violation!("read-after-ack/not-visible", "the last event of an acknowledged EMAPPEND never became visible (2 s)");
                                }
                            }
                        }
                    }
                    Op::Get { pick, unknown } => {
                        if *unknown || m.events.is_empty() {
                            let id = make_id(7, 0xFFFF_0000 + *pick as u64, 1);
                            log.push(json!({"EGET": "unknown id"}));
                            match c.call(&[s("EGET"), s(&id.to_string())]).await {
                                Ok(Some(BytesFrame::Null)) => {}
                                Ok(Some(f)) => {
                                    if is_err(&f).is_none() {
                                        violation!("eget/invented", "EGET of an unknown id returned {f:?}");
                                    }
                                }
                                Ok(None) => violation!("connection-closed/eget", "connection closed on EGET of an unknown id"),
                                Err(e) => violation!("no-reply/eget", "{e}"),
                            }
                        } else {
                            let e = m.events[((*pick as u64 * m.events.len() as u64) >> 32) as usize].clone();
                            log.push(json!({"EGET": {"stream": e.stream, "version": e.version}}));
                            match c.call(&[s("EGET"), s(&e.id.to_string())]).await {
                                Ok(Some(f)) => {
                                    if matches!(f, BytesFrame::Null) {
                                        violation!("eget/missing", "EGET of the acknowledged event {} ({} v{}) returned null", e.id, e.stream, e.version);
                                    }
                                    if let Some(d) = check_event_frame(&f, &e) {
                                        violation!("eget/content", "EGET {}: {d}", e.id);
                                    }
                                }
                                Ok(None) => violation!("connection-closed/eget", "connection closed on EGET"),
                                Err(er) => violation!("no-reply/eget", "{er}"),
                            }
                        }
                    }
                    Op::Scan { .. } | Op::PScan { .. } => {
                        let (is_stream, label, base_args, expected, start_k, end_k, count_k, page): (bool, String, Vec<Vec<u8>>, Vec<usize>, u8, u8, u8, bool) = match op {
                            Op::Scan { stream, start, end, count, page } => {
                                let sname = STREAMS[*stream].to_string();
                                let (key, explicit) = key_of(*stream, &sname);
                                let bucket = (uuid_to_partition_hash(key) % PARTITIONS) % BUCKETS;
                                let evs = m.streams.get(&(bucket, sname.clone())).map(|x| x.1.clone()).unwrap_or_default();
                                let mut a = vec![s("ESCAN"), s(&sname)];
                                if explicit {
                                    a.push(s("PARTITION_KEY"));
                                    a.push(s(&key.to_string()));
                                }
                                (true, format!("ESCAN {sname}"), a, evs, *start, *end, *count, *page)
                            }
                            Op::PScan { partition, by_key, start, end, count, page } => {
                                let evs = m.partitions.get(partition).cloned().unwrap_or_default();
                                let sel = if *by_key {
                                    // a key that hashes to this partition
                                    make_id(*partition + PARTITIONS * 3, 1, 1).to_string()
                                } else {
                                    partition.to_string()
                                };
                                (false, format!("EPSCAN {partition}"), vec![s("EPSCAN"), s(&sel)], evs, *start, *end, *count, *page)
                            }
                            _ => unreachable!(),
                        };
                        let position = |e: &MEvent| if is_stream { e.version } else { e.seq };
                        let last = expected.last().map(|i| position(&m.events[*i]));
                        let start_v = pos(start_k.min(5), last);
                        let end_v = pos(if end_k == 0 { 0 } else { end_k }, last);
                        let count: Option<u64> = match count_k { 0 => None, 1 => Some(1), 2 => Some(2), 3 => Some(3), _ => Some(0) };
                        let lo = start_v.unwrap_or(0);
                        let hi = end_v.unwrap_or(u64::MAX);
                        let matching: Vec<usize> = expected.iter().copied().filter(|i| position(&m.events[*i]) >= lo && position(&m.events[*i]) <= hi).collect();
                        let mut next_start = lo;
                        let mut got_all: Vec<u64> = Vec::new();
                        let mut rounds = 0;
                        if page {
                            had_paged = true;
                        }
                        loop {
                            rounds += 1;
                            // the stream-id position: ESCAN <stream> <start> <end> [PARTITION_KEY ..]
                            let mut a2: Vec<Vec<u8>> = base_args[..2].to_vec();
                            a2.push(if rounds == 1 && start_v.is_none() { s("-") } else { s(&next_start.to_string()) });
                            a2.push(match end_v { None => s("+"), Some(e) => s(&e.to_string()) });
                            a2.extend(base_args[2..].iter().cloned());
                            if let Some(cn) = count {
                                a2.push(s("COUNT"));
                                a2.push(s(&cn.to_string()));
                            }
                            log.push(json!({"scan": format!("{label} {} {} count {:?}", String::from_utf8_lossy(&a2[2 + if is_stream { 0 } else { 0 }]), String::from_utf8_lossy(&a2[3]), count), "model_matching": matching.len()}));
                            let reply = match c.call(&a2).await {
                                Ok(Some(f)) => f,
                                Ok(None) => violation!("connection-closed/scan", "connection closed on {label}"),
                                Err(e) => violation!("no-reply/scan", "{e}"),
                            };
                            if let Some(e) = is_err(&reply) {
                                violation!("scan/error", "{label} start {next_start} end {end_v:?} count {count:?} returned an error: {e}");
                            }
                            let Some(map) = as_map(&reply) else { violation!("scan/reply-shape", "{label}: reply is not a map") };
                            let has_more = matches!(map.get("has_more"), Some(BytesFrame::Boolean { data: true, .. }));
                            let evs: Vec<&BytesFrame> = match map.get("events") {
                                Some(BytesFrame::Array { data, .. }) => data.iter().collect(),
                                _ => violation!("scan/reply-shape", "{label}: reply lacks events"),
                            };
                            let limit = count.unwrap_or(100) as usize;
                            let remaining: Vec<usize> = matching.iter().copied().filter(|i| position(&m.events[*i]) >= next_start).collect();
                            let want: Vec<usize> = remaining.iter().copied().take(limit).collect();
                            if evs.len() != want.len() {
                                violation!("scan/wrong-events", "{label} start {next_start} end {end_v:?} count {count:?} returned {} event(s), the model has {} in that range (positions {:?})", evs.len(), want.len(), want.iter().map(|i| position(&m.events[*i])).collect::<Vec<_>>());
                            }
                            for (f, wi) in evs.iter().zip(&want) {
                                if let Some(d) = check_event_frame(f, &m.events[*wi]) {
                                    violation!("scan/content", "{label}: {d}");
                                }
                                got_all.push(position(&m.events[*wi]));
                            }
                            if !has_more && remaining.len() > want.len() {
                                violation!("scan/has-more-false", "{label} start {next_start} end {end_v:?} count {count:?} returned {} of {} matching events with has_more = false", want.len(), remaining.len());
                            }
                            if !page || !has_more || rounds > 60 {
                                if page && has_more && rounds > 60 {
                                    violation!("scan/paging-does-not-terminate", "{label}: has_more stayed true for 60 pages");
                                }
                                break;
                            }
                            match want.last() {
                                Some(w) => next_start = position(&m.events[*w]) + 1,
                                None => {
                                    // has_more with an empty page: the server's has_more means "the
                                    // stream/partition continues after what was returned", also beyond
                                    // the requested end - the statement only forbids has_more = false
                                    // while matching events remain, so this is not judged; paging stops
                                    break;
                                }
                            }
                        }
                        if page && count != Some(0) {
                            let all: Vec<u64> = matching.iter().map(|i| position(&m.events[*i])).collect();
                            if got_all != all {
                                violation!("scan/paging-incomplete", "{label}: paging returned positions {got_all:?}, the model has {all:?}");
                            }
                        }
                    }
                    Op::Ver { stream } => {
                        let sname = STREAMS[*stream].to_string();
                        let (key, explicit) = key_of(*stream, &sname);
                        let bucket = (uuid_to_partition_hash(key) % PARTITIONS) % BUCKETS;
                        let want = m.cur(bucket, &sname);
                        let mut a = vec![s("ESVER"), s(&sname)];
                        if explicit {
                            a.push(s("PARTITION_KEY"));
                            a.push(s(&key.to_string()));
                        }
                        log.push(json!({"ESVER": sname}));
                        match c.call(&a).await {
                            Ok(Some(f)) => {
                                let got = if matches!(f, BytesFrame::Null) { None } else { as_u64(&f) };
                                if got != want || (is_err(&f).is_some()) {
                                    violation!("esver/wrong", "ESVER {sname} = {f:?}, the model says {want:?}");
                                }
                            }
                            Ok(None) => violation!("connection-closed/esver", "connection closed on ESVER"),
                            Err(e) => violation!("no-reply/esver", "{e}"),
                        }
                    }
                    Op::Seq { partition } => {
                        let want = m.partitions.get(partition).map(|p| p.len() as u64 - 1);
                        log.push(json!({"EPSEQ": partition}));
                        match c.call(&[s("EPSEQ"), s(&partition.to_string())]).await {
                            Ok(Some(f)) => {
                                let got = if matches!(f, BytesFrame::Null) { None } else { as_u64(&f) };
                                if got != want || is_err(&f).is_some() {
                                    violation!("epseq/wrong", "EPSEQ {partition} = {f:?}, the model says {want:?}");
                                }
                            }
                            Ok(None) => violation!("connection-closed/epseq", "connection closed on EPSEQ"),
                            Err(e) => violation!("no-reply/epseq", "{e}"),
                        }
                    }
                    Op::Bad { kind } => {
                        let a: Vec<Vec<u8>> = match kind {
                            0 => vec![s("EAPPEND")],
                            1 => vec![s("EAPPEND"), s("acct-1"), s("E"), s("EXPECTED_VERSION"), s("foo")],
                            2 => vec![s("EGET"), s("not-a-uuid")],
                            3 => vec![s("ESCAN"), s("acct-1"), s("+"), s("-")],
                            4 => vec![s("EPSCAN"), s("0"), s("5")],
                            5 => vec![s("NOSUCHCOMMAND"), s("x")],
                            6 => vec![s("EMAPPEND"), s("not-a-uuid"), s("a"), s("b")],
                            _ => vec![s("EAPPEND"), s(&"s".repeat(65)), s("E")],
                        };
                        log.push(json!({"invalid": String::from_utf8_lossy(&a.concat()).to_string()}));
                        match c.call(&a).await {
                            Ok(Some(f)) => {
                                if is_err(&f).is_none() {
                                    violation!("invalid-request/accepted", "invalid request {:?} was answered with {f:?} instead of an error", a.iter().map(|x| String::from_utf8_lossy(x).to_string()).collect::<Vec<_>>());
                                }
                            }
                            Ok(None) => violation!("connection-closed/invalid-request", "the server closed the connection on an invalid request"),
                            Err(e) => violation!("no-reply/invalid-request", "{e}"),
                        }
                        match c.call(&[s("PING")]).await {
                            Ok(Some(BytesFrame::SimpleString { data, .. })) if &data[..] == b"PONG" => {}
                            other => violation!("connection-unusable-after-error", "PING after an error reply returned {other:?}"),
                        }
                    }
                    Op::Sub { stream } => {
                        let sname = STREAMS[*stream].to_string();
                        let (key, explicit) = key_of(*stream, &sname);
                        let bucket = (uuid_to_partition_hash(key) % PARTITIONS) % BUCKETS;
                        let evs: Vec<MEvent> = m.streams.get(&(bucket, sname.clone())).map(|x| x.1.iter().map(|i| m.events[*i].clone()).collect()).unwrap_or_default();
                        log.push(json!({"ESUB": {"stream": sname, "existing": evs.len()}}));
                        let Ok(mut c2) = Client::connect(port).await else { violation!("setup/connect", "second connection failed") };
                        let mut a = vec![s("ESUB"), s(&sname)];
                        if explicit {
                            a.push(s("PARTITION_KEY"));
                            a.push(s(&key.to_string()));
                        }
                        a.extend([s("FROM"), s("0"), s("WINDOW"), s("1000")]);
                        if c2.send(&a).await.is_err() {
                            violation!("connection-closed/esub", "could not send ESUB");
                        }
                        let mut got: Vec<u64> = Vec::new();
                        let mut sub_id: Option<String> = None;
                        let deadline = tokio::time::Instant::now() + Duration::from_millis(if evs.is_empty() { 150 } else { 20_000 });
                        while got.len() < evs.len() || sub_id.is_none() {
                            let left = deadline.saturating_duration_since(tokio::time::Instant::now());
                            if left.is_zero() {
                                break;
                            }
                            match c2.recv(left).await {
                                Ok(Some(BytesFrame::Push { data, .. })) => {
                                    if data.first().and_then(as_str).as_deref() == Some("message") && data.len() >= 4 {
                                        let cursor = as_u64(&data[2]);
                                        let idx = got.len();
                                        if idx >= evs.len() {
                                            violation!("esub/extra-event", "ESUB {sname} delivered more events than the stream holds");
                                        }
                                        if let Some(d) = check_event_frame(&data[3], &evs[idx]) {
                                            violation!("esub/wrong-event", "ESUB {sname} from 0: delivery {idx}: {d}");
                                        }
                                        if cursor != Some(evs[idx].version) {
                                            violation!("esub/wrong-cursor", "ESUB {sname}: delivery {idx} carries cursor {cursor:?}, expected version {}", evs[idx].version);
                                        }
                                        got.push(evs[idx].version);
                                    }
                                }
                                Ok(Some(f)) => {
                                    if let Some(e) = is_err(&f) {
                                        violation!("esub/error", "ESUB {sname} FROM 0 WINDOW 1000 returned an error: {e}");
                                    }
                                    if sub_id.is_none() {
                                        sub_id = as_str(&f);
                                    }
                                }
                                Ok(None) => violation!("connection-closed/esub", "the server closed the subscription connection"),
                                Err(_) => break,
                            }
                        }
                        if got.len() < evs.len() {
                            violation!("esub/missing-events", "ESUB {sname} FROM 0 delivered {} of the {} acknowledged events within 20 s", got.len(), evs.len());
                        }
                        if let Some(id) = &sub_id {
                            if let Some(last) = got.last() {
                                match c2.call(&[s("EACK"), s(id), s(&last.to_string())]).await {
                                    Ok(Some(f)) => {
                                        if is_err(&f).is_some() {
                                            violation!("eack/error", "EACK of a delivered cursor returned {f:?}");
                                        }
                                    }
                                    Ok(None) => violation!("connection-closed/eack", "connection closed on EACK"),
                                    Err(e) => violation!("no-reply/eack", "{e}"),
                                }
                            }
                        }
                    }
                }
            }
        });
        out.class(if strict { "strict-versioning" } else { "lenient-versioning" });
        out.nontrivial = had_mappend_special && had_paged;
        if let Some((sig, msg)) = fail {
            out.fail(format!("C22/{sig}"), msg);
        }
        out.set_sample(json!({"strict_versioning": strict, "commands": log}));
        out
    }
}

pub fn _unused(_: Bytes) {}
