//! C12: a replica applies replicated writes in sequence order, each at most once.

use std::collections::{BTreeSet, HashMap};
use std::sync::{Arc, Mutex};
use std::time::Duration;

use serde_json::{Value, json};
use sierradb::IterDirection;
use sierradb::database::{Database, ExpectedVersion};
use sierradb_cluster::write::replicate::ReplicateWrite;
use uuid::Uuid;
use vlib::{CaseOut, Check, Env, Plan, Scratch, Tape, Tier};

use crate::clusterchk::rf_for;
use crate::nodeh::{Node, TxSpec, block_on, mk_tx, node, open_db, to_transaction};

pub struct C12;

#[derive(Clone, Debug)]
enum Delivery {
    /// transaction `i` of the coordinator log
    Log(usize),
    /// a different transaction claiming the sequence of log transaction `i`
    ConflictAt(usize),
    /// a different transaction keyed strictly inside the range of multi-event log transaction `i`
    Inside(usize, u64),
}

async fn replica_log(db: &Database, p: u16) -> Result<Vec<(u64, Uuid, Uuid)>, String> {
    let mut it = db.read_partition(p, 0, IterDirection::Forward).await.map_err(|e| format!("{e}"))?;
    let mut out = Vec::new();
    loop {
        match it.next_batch(64).await {
            Ok(Some(b)) => {
                for g in b {
                    let tx = *g.transaction_id();
                    for e in g {
                        out.push((e.partition_sequence, tx, e.event_id));
                    }
                }
            }
            Ok(None) => break,
            Err(e) => return Err(format!("{e}")),
        }
    }
    Ok(out)
}

impl Check for C12 {
    fn id(&self) -> &'static str {
        "C12"
    }
    fn level(&self) -> &'static str {
        "exploration"
    }
    fn rule(&self) -> String {
        "case = a coordinator log for one partition (2-14 transactions, 1-4 events, with their assigned sequence ranges) and a delivery schedule from the tape: every log transaction at least once in a permuted order, duplicates, conflicting transactions claiming an occupied expected sequence, and conflicting transactions keyed strictly inside the range of a multi-event transaction. Each delivery is a ReplicateWrite ask enqueued on the real node's mailbox in schedule order (the node acts as replica; its own remote ref is the coordinator); replies are awaited concurrently. Oracle: at every observation the replica's partition log is a prefix of the coordinator log (same transaction ids, event ids, sequences); after quiescence it contains exactly the longest prefix whose transactions were all delivered; duplicates get the same Ok; conflicting writes never succeed; no ask whose expected sequence lies below the replica's next sequence is still pending 3 s after the replica holds the owed prefix (the replica's own buffer timeout is 8 s); the partition's replicator keeps answering (a probe write at the next sequence succeeds). Non-trivial: the schedule delivered a successor before its predecessor (buffering happened) and contains a conflict or an inside-range delivery.".into()
    }
    fn assumptions(&self) -> Vec<String> {
        vec![
            "the node is driven as a replica through its public ReplicateWrite message with its own remote ref as coordinator (accepted because it is an available replica); no network".into(),
            "ResetCluster installs a 1000-entry buffer with 8 s / 1 s timeouts: buffer overflow is not reached; asks above a permanently missing predecessor are allowed to stay pending (they time out after 8 s)".into(),
        ]
    }
    fn plan(&self, tier: Tier) -> Plan {
        let quick = tier == Tier::Quick;
        Plan { cases: if quick { 2400 } else { 24_000 }, max_tape: 8, min_slots: 4, max_slots: 40, shard_cases: 10, shard_timeout_s: if quick { 600 } else { 1200 }, max_shrink_iters: 40, ..Plan::default() }
    }
    fn abort_is_violation(&self) -> bool {
        true
    }
    fn run_case(&self, t: &mut Tape, env: &Env) -> CaseOut {
        let mut out = CaseOut::default();
        let n: &Node = node(rf_for(env), 1000, 8000, 2000);
        out.hint = Some(n.rf as u64);
        let salt = t.raw() as u64;
        let p = t.below(4) as u16;
        let n_tx = 2 + t.usize_below(13);
        // coordinator log
        let mut log: Vec<TxSpec> = Vec::new();
        let mut starts: Vec<u64> = Vec::new();
        let mut next = 0u64;
        for _ in 0..n_tx {
            let k = match t.weighted(&[4, 3, 2, 1]) {
                0 => 1,
                1 => 2,
                2 => 3,
                _ => 4,
            };
            let streams: Vec<String> = (0..k).map(|i| format!("r{}", i % 2)).collect();
            log.push(mk_tx(p, &streams, 1, salt, ExpectedVersion::from_next_version(next)));
            starts.push(next);
            next += k as u64;
        }
        // schedule: one slot per extra delivery; base = every log tx once, permuted
        let mut schedule: Vec<Delivery> = (0..n_tx).map(Delivery::Log).collect();
        while t.next_slot() {
            let i = t.usize_below(n_tx);
            let d = match t.weighted(&[4, 2, 3]) {
                0 => Delivery::Log(i),
                1 => Delivery::ConflictAt(i),
                _ => {
                    // inside a multi-event range if there is one
                    let multi: Vec<usize> = (0..n_tx).filter(|j| log[*j].events.len() > 1).collect();
                    if multi.is_empty() {
                        Delivery::ConflictAt(i)
                    } else {
                        let j = multi[t.usize_below(multi.len())];
                        Delivery::Inside(j, 1 + t.below(log[j].events.len() as u64 - 1))
                    }
                }
            };
            let at = t.usize_below(schedule.len() + 1);
            schedule.insert(at, d);
        }
        // permute (zeros = identity)
        let mut skip: Option<usize> = None;
        if t.chance(1, 6) {
            skip = Some(t.usize_below(n_tx)); // this transaction is never delivered
        }
        for i in (1..schedule.len()).rev() {
            let j = t.usize_below(i + 1);
            schedule.swap(i, j);
        }
        if let Some(s) = skip {
            schedule.retain(|d| !matches!(d, Delivery::Log(i) if *i == s));
        }
        // A write for an expected sequence nobody has claimed yet is a legitimate first write as
        // far as the replica can tell. It is only a *conflict* once the coordinator's transaction
        // for that sequence has arrived: move every conflicting delivery behind the first delivery
        // of the log transaction it competes with (drop it when that one is never delivered).
        let mut fixed: Vec<Delivery> = Vec::new();
        let mut waiting: Vec<Delivery> = Vec::new();
        for d in schedule {
            match &d {
                Delivery::Log(i) => {
                    let i = *i;
                    fixed.push(d);
                    let (now, later): (Vec<Delivery>, Vec<Delivery>) = waiting.into_iter().partition(|w| matches!(w, Delivery::ConflictAt(j) | Delivery::Inside(j, _) if *j == i));
                    fixed.extend(now);
                    waiting = later;
                }
                // a write keyed strictly inside a multi-event range can never be a legitimate first
                // write (only the multi-event transaction itself covers the sequences before it), so
                // it may arrive at any time - also early, when it is buffered and must be answered
                // once the range has been applied
                Delivery::Inside(..) => fixed.push(d),
                Delivery::ConflictAt(j) => {
                    if fixed.iter().any(|f| matches!(f, Delivery::Log(i) if i == j)) {
                        fixed.push(d);
                    } else {
                        waiting.push(d);
                    }
                }
            }
        }
        let schedule = fixed;

        let scratch = Scratch::new("c12");
        let mut fail: Option<(String, String)> = None;
        let mut rendered = Vec::new();
        let mut buffered = false;
        let has_conflict = schedule.iter().any(|d| !matches!(d, Delivery::Log(_)));
        block_on(async {
            let db = open_db(scratch.path());
            if let Err(e) = n.reset(db.clone()).await {
                fail = Some(("setup/reset".into(), e));
                return;
            }
            // outcomes[i] = Some(Ok(first,last)) / Some(Err(text)) / None while pending
            let outcomes: Arc<Mutex<Vec<Option<Result<(u64, u64), String>>>>> = Arc::new(Mutex::new(vec![None; schedule.len()]));
            let mut delivered_log: BTreeSet<usize> = BTreeSet::new();
            let mut max_delivered_start: i64 = -1;
            let mut txs: Vec<TxSpec> = Vec::new();
            let mut handles = Vec::new();
            for (di, d) in schedule.iter().enumerate() {
                let tx = match d {
                    Delivery::Log(i) => {
                        if (starts[*i] as i64) < max_delivered_start && !delivered_log.contains(i) {
                            buffered = true;
                        }
                        max_delivered_start = max_delivered_start.max(starts[*i] as i64);
                        delivered_log.insert(*i);
                        log[*i].clone()
                    }
                    Delivery::ConflictAt(i) => mk_tx(p, &["x".to_string()], 1, salt ^ 0xC0, ExpectedVersion::from_next_version(starts[*i])),
                    Delivery::Inside(i, off) => mk_tx(p, &["y".to_string()], 1, salt ^ 0x1D, ExpectedVersion::from_next_version(starts[*i] + off)),
                };
                rendered.push(json!({"deliver": format!("{d:?}"), "expected_next_sequence": tx.expected_seq.into_next_version(), "events": tx.events.len()}));
                txs.push(tx.clone());
                let pending = n.cluster.ask(ReplicateWrite { coordinator_ref: n.remote.clone(), coordinator_alive_since: u64::MAX, transaction: to_transaction(&tx) }).enqueue().await;
                match pending {
                    Ok(pending) => {
                        let outcomes = outcomes.clone();
                        handles.push(tokio::spawn(async move {
                            let r = pending.await;
                            let v = match r {
                                Ok(a) => Ok((a.first_partition_sequence, a.last_partition_sequence)),
                                Err(e) => Err(format!("{e}")),
                            };
                            outcomes.lock().unwrap()[di] = Some(v);
                        }));
                    }
                    Err(e) => {
                        outcomes.lock().unwrap()[di] = Some(Err(format!("enqueue failed: {e}")));
                    }
                }
                // intermediate observation: the replica log is always a prefix of the coordinator log
                if di % 3 == 2 {
                    if let Some(f) = check_prefix(&db, p, &log, &starts).await.err() {
                        fail = Some(f);
                        return;
                    }
                }
            }
            // settle: the state the replica owes is known (the longest fully delivered prefix, and
            // an answer for every delivery keyed below it), so wait for exactly that; the generous
            // deadline only matters when something is really missing, never on a slow machine
            let mut owed_tx = 0;
            while owed_tx < log.len() && delivered_log.contains(&owed_tx) {
                owed_tx += 1;
            }
            let owed_events: u64 = log[..owed_tx].iter().map(|t| t.events.len() as u64).sum();
            let settle = tokio::time::Instant::now();
            let mut reached_at: Option<tokio::time::Instant> = None;
            loop {
                tokio::time::sleep(Duration::from_millis(25)).await;
                let held = check_prefix(&db, p, &log, &starts).await.unwrap_or(usize::MAX) as u64;
                let answered = {
                    let oc = outcomes.lock().unwrap();
                    schedule.iter().enumerate().all(|(di, _)| oc[di].is_some() || txs[di].expected_seq.into_next_version().unwrap() >= owed_events)
                };
                if held >= owed_events && reached_at.is_none() {
                    reached_at = Some(tokio::time::Instant::now());
                }
                // the answers to writes keyed below the applied prefix are produced by the same
                // handler that applied it: 3 s of grace after the prefix is complete is generous,
                // and stays well below the node's own buffer timeout (8 s), after which a forgotten
                // entry is dropped and its caller gets an error that would hide the defect
                let grace_over = reached_at.map(|t| t.elapsed() > Duration::from_secs(3)).unwrap_or(false);
                if (held >= owed_events && answered) || grace_over || settle.elapsed() > Duration::from_secs(15) {
                    break;
                }
            }
            // and a moment more, so that something applied *beyond* the owed prefix shows up
            tokio::time::sleep(Duration::from_millis(150)).await;
            let replica = match check_prefix(&db, p, &log, &starts).await {
                Ok(r) => r,
                Err(f) => {
                    fail = Some(f);
                    return;
                }
            };
            // exactly the longest fully delivered prefix
            let mut want_tx = 0;
            while want_tx < log.len() && delivered_log.contains(&want_tx) {
                want_tx += 1;
            }
            let want_events: u64 = log[..want_tx].iter().map(|t| t.events.len() as u64).sum();
            if replica as u64 != want_events {
                fail = Some(("not-applied".into(), format!("transactions 0..{want_tx} of the coordinator log ({want_events} events) were all delivered, but the replica holds {replica} events after quiescence")));
                return;
            }
            let next_seq = replica as u64;
            let oc = outcomes.lock().unwrap().clone();
            for (di, d) in schedule.iter().enumerate() {
                let exp_next = txs[di].expected_seq.into_next_version().unwrap();
                match (&oc[di], d) {
                    (None, _) if exp_next < next_seq => {
                        fail = Some(("pending-below-next".into(), format!("delivery {di} ({d:?}, expected next sequence {exp_next}) has received no answer although the replica's next sequence is {next_seq}")));
                        return;
                    }
                    (Some(Ok((first, _))), Delivery::Log(i)) => {
                        if *first != starts[*i] {
                            fail = Some(("applied-at-wrong-sequence".into(), format!("log transaction {i} was acknowledged at sequence {first}, the coordinator assigned {}", starts[*i])));
                            return;
                        }
                    }
                    (Some(Ok((first, last))), _) => {
                        fail = Some(("conflicting-write-applied".into(), format!("delivery {di} ({d:?}) is not part of the coordinator log but was acknowledged at sequences {first}..={last}")));
                        return;
                    }
                    (Some(Err(e)), Delivery::Log(i)) if *i < want_tx => {
                        // a delivered log transaction inside the applied prefix: every delivery of it
                        // must have been answered Ok (duplicates are merged or answered stale only
                        // after it was applied)
                        let dup_after_apply = e.contains("stale");
                        if !dup_after_apply {
                            fail = Some(("applied-but-answered-error".into(), format!("log transaction {i} was applied, but one of its deliveries was answered with an error: {e}")));
                            return;
                        }
                    }
                    _ => {}
                }
            }
            // the replicator still answers: a probe at the next sequence is applied
            let probe = mk_tx(p, &["probe".to_string()], 1, salt ^ 0xFEED, ExpectedVersion::from_next_version(next_seq));
            let r = tokio::time::timeout(Duration::from_secs(5), n.cluster.ask(ReplicateWrite { coordinator_ref: n.remote.clone(), coordinator_alive_since: u64::MAX, transaction: to_transaction(&probe) })).await;
            match r {
                Ok(Ok(a)) if a.first_partition_sequence == next_seq => {}
                Ok(Ok(a)) => fail = Some(("probe-wrong-sequence".into(), format!("probe write applied at {} instead of {next_seq}", a.first_partition_sequence))),
                Ok(Err(e)) => fail = Some(("replicator-dead-or-rejecting".into(), format!("after the schedule a valid replicated write at the next sequence {next_seq} is rejected: {e}"))),
                Err(_) => fail = Some(("probe-timeout".into(), format!("a valid replicated write at the next sequence {next_seq} got no answer within 5 s"))),
            }
            for h in handles {
                h.abort();
            }
        });
        out.class(&format!("rf={}", n.rf));
        out.nontrivial = buffered && has_conflict;
        if let Some((sig, msg)) = fail {
            out.fail(format!("C12/{sig}"), msg);
        }
        out.set_sample(json!({"partition": p, "log": log.iter().zip(&starts).map(|(t, s)| json!({"start": s, "events": t.events.len()})).collect::<Vec<_>>(), "schedule": rendered, "never_delivered": skip}));
        out
    }
}

/// The replica's log must be a prefix of the coordinator log. Returns its length in events.
async fn check_prefix(db: &Database, p: u16, log: &[TxSpec], starts: &[u64]) -> Result<usize, (String, String)> {
    let replica = replica_log(db, p).await.map_err(|e| ("replica-log-unreadable".to_string(), e))?;
    let mut want: Vec<(u64, Uuid, Uuid)> = Vec::new();
    for (t, s) in log.iter().zip(starts) {
        for (i, (id, _, _)) in t.events.iter().enumerate() {
            want.push((s + i as u64, t.tx_id, *id));
        }
    }
    for (i, r) in replica.iter().enumerate() {
        if want.get(i) != Some(r) {
            return Err(("log-diverges".into(), format!("replica log entry {i} is (sequence {}, tx {}, event {}), the coordinator log has {:?} there", r.0, r.1, r.2, want.get(i))));
        }
    }
    let _ = HashMap::<u8, u8>::new();
    Ok(replica.len())
}

pub fn _unused(_: Value) {}
