//! C24 (distribute_partition), C13 (placement vs routing), C14 (replica sets).

use std::panic::{AssertUnwindSafe, catch_unwind};

use serde_json::{Value, json};
use sierradb_topology::distribute_partition;
use vlib::{CaseOut, Check, Env, ExhaustOut, Failure, Plan, Tape, Tier};

pub struct C24;

fn c24_check(hash: u16, n: u16, rf: u8) -> Option<Failure> {
    let r = catch_unwind(AssertUnwindSafe(|| distribute_partition(hash, n, rf)));
    let v = match r {
        Err(_) => return Some(Failure::new("C24/panic", format!("distribute_partition({hash}, {n}, {rf}) panicked"))),
        Ok(v) => v,
    };
    let want = (rf as usize).min(n as usize).min(12);
    if n == 0 || rf == 0 {
        if !v.is_empty() {
            return Some(Failure::new("C24/nonempty-for-zero", format!("distribute_partition({hash}, {n}, {rf}) = {v:?}")));
        }
        return None;
    }
    if v.len() != want {
        return Some(Failure::new("C24/wrong-length", format!("distribute_partition({hash}, {n}, {rf}) has {} entries, expected min(rf, n, 12) = {want}: {v:?}", v.len())));
    }
    if v[0] != hash % n {
        return Some(Failure::new("C24/first-not-hash-mod-n", format!("distribute_partition({hash}, {n}, {rf})[0] = {}, expected {}", v[0], hash % n)));
    }
    for (i, a) in v.iter().enumerate() {
        if *a >= n {
            return Some(Failure::new("C24/out-of-range", format!("distribute_partition({hash}, {n}, {rf}) contains {a} >= {n}")));
        }
        if v[..i].contains(a) {
            return Some(Failure::new("C24/duplicate", format!("distribute_partition({hash}, {n}, {rf}) = {v:?} repeats {a}")));
        }
    }
    None
}

/// prefix + determinism for one (hash, n): computes rf = 13 once and checks every smaller rf.
fn c24_check_all_rf(hash: u16, n: u16, evals: &mut u64) -> Option<(Failure, Value)> {
    let full = match catch_unwind(AssertUnwindSafe(|| distribute_partition(hash, n, 255))) {
        Ok(v) => v,
        Err(_) => return Some((Failure::new("C24/panic", format!("distribute_partition({hash}, {n}, 255) panicked")), json!({"hash": hash, "n": n, "rf": 255}))),
    };
    *evals += 1;
    if let Some(f) = c24_check(hash, n, 255) {
        return Some((f, json!({"hash": hash, "n": n, "rf": 255})));
    }
    for rf in 0..=13u8 {
        *evals += 1;
        if let Some(f) = c24_check(hash, n, rf) {
            return Some((f, json!({"hash": hash, "n": n, "rf": rf})));
        }
        let a = distribute_partition(hash, n, rf);
        let b = distribute_partition(hash, n, rf);
        if a != b {
            return Some((Failure::new("C24/nondeterministic", format!("two calls of distribute_partition({hash}, {n}, {rf}) differ")), json!({"hash": hash, "n": n, "rf": rf})));
        }
        if a.len() > full.len() || full[..a.len()] != a[..] {
            return Some((Failure::new("C24/not-a-prefix", format!("distribute_partition({hash}, {n}, {rf}) = {a:?} is not a prefix of the result for rf=255 {full:?}")), json!({"hash": hash, "n": n, "rf": rf})));
        }
    }
    None
}

const HASHES: [u16; 24] = [0, 1, 2, 3, 7, 100, 255, 256, 1023, 1024, 21845, 21846, 32767, 32768, 43689, 43690, 43691, 50000, 65000, 65533, 65534, 65535, 12345, 54321];

impl Check for C24 {
    fn id(&self) -> &'static str {
        "C24"
    }
    fn level(&self) -> &'static str {
        "exploration"
    }
    fn rule(&self) -> String {
        "exhaustive stage: quick = every partition count n in 0..=65535 x every rf in {0..=13, 255} x 24 boundary hashes (0,1,..,21845/6 = 65535/3, 32767/8, 43689-43691 = 2/3 of 65535, 65533-65535, ...); thorough = the entire space of 2^16 hashes x 2^16 partition counts at rf = 255 plus all rf in 0..=13 for the 24 boundary hashes (exhaustive: true). For every input: no panic, length == min(rf, n, 12), first == hash mod n, all < n, pairwise distinct, empty when n or rf is 0, equal on repeat, result(rf) is a prefix of result(255). PBT stage: seeded (hash, n, rf) triples from boundary sets and the full ranges. Non-trivial: n > 2 and rf > 1 (the modular walk runs); the exhaustive stage counts non-trivial evaluations.".into()
    }
    fn assumptions(&self) -> Vec<String> {
        vec!["MAX_REPLICATION_FACTOR = 12 as exported by sierradb".into()]
    }
    fn plan(&self, tier: Tier) -> Plan {
        Plan { cases: if tier == Tier::Quick { 20_000 } else { 200_000 }, max_tape: 8, shard_cases: if tier == Tier::Quick { 2_500 } else { 25_000 }, exhaustive_shards: if tier == Tier::Quick { 16 } else { 256 }, shard_timeout_s: 3000, ..Plan::default() }
    }
    fn exhaustive_claim(&self, tier: Tier) -> bool {
        tier == Tier::Thorough
    }
    fn run_case(&self, t: &mut Tape, _env: &Env) -> CaseOut {
        let mut out = CaseOut::default();
        let hash = if t.bool() { *t.pick(&HASHES) } else { t.below(65536) as u16 };
        let n = match t.weighted(&[2, 2, 1]) {
            0 => t.below(65536) as u16,
            1 => *t.pick(&[0u16, 1, 2, 3, 4, 12, 13, 255, 256, 1024, 32767, 32768, 43690, 43691, 43692, 65534, 65535]),
            _ => 1 + t.below(64) as u16,
        };
        let rf = match t.weighted(&[3, 1]) {
            0 => t.below(14) as u8,
            _ => *t.pick(&[0u8, 1, 12, 13, 128, 255]),
        };
        if let Some(f) = c24_check(hash, n, rf) {
            out.failures.push(f);
        }
        let mut e = 0;
        if let Some((f, _)) = c24_check_all_rf(hash, n, &mut e) {
            out.failures.push(f);
        }
        out.nontrivial = n > 2 && rf > 1;
        out.set_sample(json!({"hash": hash, "n": n, "rf": rf, "result": catch_unwind(AssertUnwindSafe(|| distribute_partition(hash, n, rf).to_vec())).ok()}));
        out
    }
    fn run_exhaustive(&self, shard: u64, total: u64, env: &Env) -> ExhaustOut {
        let mut o = ExhaustOut::default();
        let mut seen_sigs = std::collections::HashSet::new();
        for n in (0..=u16::MAX).filter(|n| (*n as u64) % total == shard) {
            for h in HASHES {
                let mut e = 0;
                if let Some((f, p)) = c24_check_all_rf(h, n, &mut e) {
                    if seen_sigs.insert(f.signature.clone()) {
                        o.failures.push((f, p));
                    }
                }
                o.evaluations += e;
                if n > 2 {
                    o.nontrivial += 12;
                }
            }
            if env.tier == Tier::Thorough {
                for h in 0..=u16::MAX {
                    o.evaluations += 1;
                    if let Some(f) = c24_check(h, n, 255) {
                        if seen_sigs.insert(f.signature.clone()) {
                            o.failures.push((f, json!({"hash": h, "n": n, "rf": 255})));
                        }
                    }
                }
                if n > 2 {
                    o.nontrivial += 65536;
                }
            }
        }
        o.samples.push(json!({"hash": 65534, "n": 65535, "rf": 3}));
        o.samples.push(json!({"hash": 7, "n": 10, "rf": 3, "result": distribute_partition(7, 10, 3).to_vec()}));
        o
    }
    fn replay_params(&self, p: &Value, _env: &Env) -> Vec<Failure> {
        let (h, n, rf) = (p["hash"].as_u64().unwrap_or(0) as u16, p["n"].as_u64().unwrap_or(0) as u16, p["rf"].as_u64().unwrap_or(0) as u8);
        let mut v = Vec::new();
        if let Some(f) = c24_check(h, n, rf) {
            v.push(f);
        }
        let mut e = 0;
        if let Some((f, _)) = c24_check_all_rf(h, n, &mut e) {
            v.push(f);
        }
        v
    }
}

// ------------------------------------------------------------------------------------------
// C13 / C14

use std::collections::{BTreeMap, BTreeSet, HashMap, HashSet};
use std::time::Duration;

use kameo::actor::ActorId;
use libp2p::PeerId;
use sierradb_server::config::{AppConfig, AppendConfig, BucketConfig, CacheConfig, HeartbeatConfig, NetworkConfig, NodeConfig, PartitionConfig, ReplicationConfig, SegmentConfig, SyncConfig, Threads};
use sierradb_topology::TopologyManager;
use sierradb_topology::test_helpers::create_test_peer_id;

pub fn app_config(n: u32, index: u32, buckets: u16, partitions: u16, rf: u8) -> AppConfig {
    AppConfig {
        append: AppendConfig { strict_versioning: false },
        bucket: BucketConfig { count: buckets, ids: None },
        cache: CacheConfig { capacity_bytes: 1 << 20 },
        dir: "/nonexistent".into(),
        heartbeat: HeartbeatConfig { interval_ms: 100, timeout_ms: 400 },
        network: NetworkConfig { cluster_enabled: true, cluster_address: "/ip4/127.0.0.1/tcp/0".parse().unwrap(), client_address: "127.0.0.1:9090".into(), mdns: false },
        node: NodeConfig { count: Some(n), index },
        partition: PartitionConfig { count: partitions, ids: None },
        replication: ReplicationConfig { buffer_size: 10, buffer_timeout_ms: 1000, catchup_timeout_ms: 1000, factor: rf },
        segment: SegmentConfig { size_bytes: 256 * 1024 * 1024, compression: true },
        sync: SyncConfig { interval_ms: 5, idle_interval_ms: None, max_batch_size: 50, min_bytes: 4096 },
        threads: Threads::default(),
        nodes: None,
    }
}

fn manager(index: usize, n: usize, partitions: u16, buckets: u16, rf: u8) -> TopologyManager<ActorId> {
    let peer = create_test_peer_id(index);
    TopologyManager::new(ActorId::new_with_peer_id(0, peer), index, n, partitions, buckets, rf, Duration::from_secs(30))
}

/// A manager that knows every node of the cluster (as after full discovery): all members but
/// the last are entered into the (public) membership maps, the last one arrives by heartbeat,
/// which makes the manager recompute its assignments the way it does at run time.
fn full_manager(index: usize, n: usize, partitions: u16, buckets: u16, rf: u8) -> TopologyManager<ActorId> {
    let mut m = manager(index, n, partitions, buckets, rf);
    let others: Vec<usize> = (0..n).filter(|j| *j != index).collect();
    for (k, j) in others.iter().enumerate() {
        let peer = create_test_peer_id(*j);
        let r = ActorId::new_with_peer_id(0, peer);
        if k + 1 < others.len() {
            m.active_nodes.insert(peer, (m.alive_since, *j));
            m.cluster_nodes.insert(peer, r);
        } else {
            m.on_heartbeat(r, &HashSet::new(), m.alive_since, *j, n);
        }
    }
    m
}

pub struct C13;

fn c13_check(n: u32, buckets: u16, partitions: u16, rf: u8, evals: &mut u64) -> Option<(Failure, Value)> {
    let params = json!({"nodes": n, "buckets": buckets, "partitions": partitions, "rf": rf});
    // only configurations the server accepts
    let probe = app_config(n, 0, buckets, partitions, rf);
    match probe.validate() {
        Ok(errs) if errs.is_empty() => {}
        _ => return None,
    }
    let node_of_peer: HashMap<PeerId, usize> = (0..n as usize).map(|i| (create_test_peer_id(i), i)).collect();
    let full = full_manager(0, n as usize, partitions, buckets, rf);
    let mut storage: Vec<HashSet<u16>> = Vec::new();
    for i in 0..n {
        *evals += 1;
        if n > 48 && !(i < 4 || i + 4 >= n || i % 37 == 0) {
            // large clusters: storage sets of all nodes are still needed for the routing check,
            // the (costly) per-node topology comparison is done for a sample of indices
            let cfg = app_config(n, i, buckets, partitions, rf);
            storage.push(cfg.assigned_buckets().unwrap_or_default());
            continue;
        }
        let cfg = app_config(n, i, buckets, partitions, rf);
        let b = match cfg.assigned_buckets() {
            Ok(b) => b,
            Err(e) => return Some((Failure::new("C13/assigned-buckets-error", format!("assigned_buckets failed for a validated configuration {params}: {e}")), params)),
        };
        let stored_partitions = cfg.assigned_partitions(&b);
        let topo = manager(i as usize, n as usize, partitions, buckets, rf);
        if stored_partitions != topo.assigned_partitions {
            let mut a: Vec<_> = stored_partitions.iter().copied().collect();
            a.sort();
            let mut t: Vec<_> = topo.assigned_partitions.iter().copied().collect();
            t.sort();
            return Some((
                Failure::new("C13/storage-vs-topology-assignment", format!("{n} nodes, {buckets} buckets, {partitions} partitions, rf {rf}: node {i} opens buckets {:?} (partitions {a:?}) but its topology claims partitions {t:?}", { let mut v: Vec<_> = b.iter().copied().collect(); v.sort(); v })),
                params,
            ));
        }
        storage.push(b);
    }
    // routing: every node a partition is routed to stores the partition's bucket
    for p in 0..partitions {
        let Some(replicas) = full.partition_replicas.get(&p) else { continue };
        for r in replicas {
            let j = node_of_peer[r.peer_id().unwrap()];
            if !storage[j].contains(&(p % buckets)) {
                return Some((Failure::new("C13/routed-to-node-without-bucket", format!("{n} nodes, {buckets} buckets, {partitions} partitions, rf {rf}: partition {p} (bucket {}) is routed to node {j}, which stores only buckets {:?}", p % buckets, { let mut v: Vec<_> = storage[j].iter().copied().collect(); v.sort(); v })), params));
            }
        }
    }
    None
}

impl Check for C13 {
    fn id(&self) -> &'static str {
        "C13"
    }
    fn level(&self) -> &'static str {
        "exploration"
    }
    fn rule(&self) -> String {
        "exhaustive stage: every configuration accepted by AppConfig::validate with node count 1..=6, buckets 1..=8, partitions 1..=16, rf 1..=node count, every node index (exhaustive: true for that box); PBT stage: sampled configurations up to 300 nodes, 64 buckets, 65535 partitions. Oracle: for every node index AppConfig::assigned_partitions(assigned_buckets()) == TopologyManager::new(..).assigned_partitions, and with all nodes known every node in partition_replicas[p] stores bucket p % buckets. Non-trivial: rf < node count and buckets > 1 (placement is not 'everything everywhere').".into()
    }
    fn assumptions(&self) -> Vec<String> {
        vec!["bucket.ids / partition.ids overrides are not set (the derived placement is the subject)".into()]
    }
    fn plan(&self, tier: Tier) -> Plan {
        Plan { cases: if tier == Tier::Quick { 400 } else { 6000 }, max_tape: 8, shard_cases: 25, exhaustive_shards: 48, shard_timeout_s: 1200, max_shrink_iters: 200, ..Plan::default() }
    }
    fn exhaustive_claim(&self, _tier: Tier) -> bool {
        true
    }
    fn run_case(&self, t: &mut Tape, _env: &Env) -> CaseOut {
        let mut out = CaseOut::default();
        let n = match t.weighted(&[4, 2, 1]) {
            0 => 1 + t.below(8) as u32,
            1 => 1 + t.below(40) as u32,
            _ => *t.pick(&[64u32, 100, 255, 256, 257, 300]),
        };
        let buckets = match t.weighted(&[4, 1]) {
            0 => 1 + t.below(16) as u16,
            _ => *t.pick(&[1u16, 32, 64]),
        };
        let partitions = (buckets.max(n as u16) as u64 + match t.weighted(&[3, 1, if n <= 16 { 1 } else { 0 }]) {
            0 => t.below(32),
            1 => t.below(1024),
            _ => *t.pick(&[0u64, 1000, 65535 - buckets.max(n as u16) as u64]),
        })
        .min(65535) as u16;
        let rf = (1 + t.below(12.min(n as u64))) as u8;
        let mut e = 0;
        if let Some((f, _)) = c13_check(n, buckets, partitions, rf, &mut e) {
            out.failures.push(f);
        }
        out.nontrivial = (rf as u32) < n && buckets > 1;
        out.count("node_configs_checked", e);
        out.set_sample(json!({"nodes": n, "buckets": buckets, "partitions": partitions, "rf": rf}));
        out
    }
    fn run_exhaustive(&self, shard: u64, _total: u64, _env: &Env) -> ExhaustOut {
        let mut o = ExhaustOut::default();
        let n = (shard / 8) as u32 + 1; // 48 shards = node counts 1..=6 x bucket counts 1..=8
        let mut seen = HashSet::new();
        for buckets in [(shard % 8) as u16 + 1] {
            for partitions in 1..=16u16 {
                for rf in 1..=n as u8 {
                    let mut e = 0;
                    if let Some((f, p)) = c13_check(n, buckets, partitions, rf, &mut e) {
                        if seen.insert(f.signature.clone()) {
                            o.failures.push((f, p));
                        }
                    }
                    o.evaluations += e;
                    if (rf as u32) < n && buckets > 1 && e > 0 {
                        o.nontrivial += e;
                    }
                }
            }
        }
        o.samples.push(json!({"nodes": n, "buckets": "1..=8", "partitions": "1..=16", "rf": format!("1..={n}")}));
        o
    }
    fn replay_params(&self, p: &Value, _env: &Env) -> Vec<Failure> {
        let mut e = 0;
        c13_check(p["nodes"].as_u64().unwrap_or(1) as u32, p["buckets"].as_u64().unwrap_or(1) as u16, p["partitions"].as_u64().unwrap_or(1) as u16, p["rf"].as_u64().unwrap_or(1) as u8, &mut e).map(|x| vec![x.0]).unwrap_or_default()
    }
}

pub struct C14;

fn c14_static(n: usize, buckets: u16, partitions: u16, rf: u8) -> Option<(Failure, Value)> {
    let params = json!({"kind": "static", "nodes": n, "buckets": buckets, "partitions": partitions, "rf": rf});
    let want = (rf as usize).min(n);
    let mut owners: BTreeMap<u16, BTreeSet<usize>> = BTreeMap::new();
    for i in 0..n {
        let r = catch_unwind(AssertUnwindSafe(|| manager(i, n, partitions, buckets, rf)));
        let m = match r {
            Ok(m) => m,
            Err(_) => return Some((Failure::new("C14/panic", format!("TopologyManager::new panicked for {params}")), params)),
        };
        for p in &m.assigned_partitions {
            owners.entry(*p).or_default().insert(i);
        }
    }
    let full = full_manager(0, n, partitions, buckets, rf);
    let node_of_peer: HashMap<PeerId, usize> = (0..n).map(|i| (create_test_peer_id(i), i)).collect();
    for p in 0..partitions {
        let own = owners.get(&p).cloned().unwrap_or_default();
        if own.len() != want {
            return Some((Failure::new("C14/static/owner-count", format!("{n} nodes, {buckets} buckets, {partitions} partitions, rf {rf}: partition {p} is owned by {} node(s) {:?}, expected min(rf, N) = {want}", own.len(), own.iter().take(8).collect::<Vec<_>>())), params));
        }
        let reps: Vec<usize> = full.partition_replicas.get(&p).map(|r| r.iter().map(|a| node_of_peer[a.peer_id().unwrap()]).collect()).unwrap_or_default();
        let rep_set: BTreeSet<usize> = reps.iter().copied().collect();
        if rep_set.len() != reps.len() {
            return Some((Failure::new("C14/static/duplicate-replica", format!("partition {p} replica list {reps:?} repeats a node ({params})")), params));
        }
        if rep_set != own {
            return Some((Failure::new("C14/static/ownership-vs-replica-set", format!("{n} nodes, {buckets} buckets, {partitions} partitions, rf {rf}: partition {p} is owned by nodes {own:?} but its replica set is {rep_set:?}")), params));
        }
    }
    None
}

#[derive(Clone, Debug)]
enum TopoOp {
    Connect { from: usize, to: usize, deliver_to: Vec<usize> },
    Heartbeat { from: usize, to: usize },
    Disconnect { at: usize, who: usize },
    Timeout { at: usize },
    DeliverStored { idx: usize, to: usize },
}

type Response = (HashMap<ActorId, HashSet<u16>>, HashMap<PeerId, (u64, usize)>);

fn deliver_response(m: &mut TopologyManager<ActorId>, resp: &Response) {
    // exactly what Behaviour::handle_partition_message does with an OwnershipResponse
    let partition_replicas = resp
        .0
        .iter()
        .flat_map(|(cluster_ref, partition_ids)| partition_ids.iter().map(move |partition_id| (*partition_id, *cluster_ref)))
        .fold(HashMap::<u16, arrayvec::ArrayVec<ActorId, 12>>::new(), |mut acc, (partition_id, cluster_ref)| {
            acc.entry(partition_id).or_default().push(cluster_ref);
            acc
        });
    m.handle_ownership_response(&partition_replicas, resp.1.clone());
    m.ensure_local_partitions();
}

fn c14_dynamic(t: &mut Tape, out: &mut CaseOut) -> Option<Failure> {
    let n = 2 + t.usize_below(4);
    let buckets = 1 + t.below(6) as u16;
    let partitions = buckets.max(n as u16) + t.below(8) as u16;
    let rf = (1 + t.below(n as u64)) as u8;
    let mut ms: Vec<TopologyManager<ActorId>> = (0..n).map(|i| manager(i, n, partitions, buckets, rf)).collect();
    for m in ms.iter_mut() {
        m.alive_since = 1000 + t.below(3); // ties and differences both occur
        let me = *m.local_cluster_ref.peer_id().unwrap();
        let idx = m.local_node_index;
        m.active_nodes.insert(me, (m.alive_since, idx));
    }
    let mut stored: Vec<Response> = Vec::new();
    let mut rendered = vec![json!({"nodes": n, "buckets": buckets, "partitions": partitions, "rf": rf, "alive_since": ms.iter().map(|m| m.alive_since).collect::<Vec<_>>()})];
    let mut used_response = false;
    let mut steps = 0;
    while t.next_slot() {
        steps += 1;
        let op = match t.weighted(&[4, 4, 2, 1, 2]) {
            0 => TopoOp::Connect { from: t.usize_below(n), to: t.usize_below(n), deliver_to: (0..n).filter(|_| t.bool()).collect() },
            1 => TopoOp::Heartbeat { from: t.usize_below(n), to: t.usize_below(n) },
            2 => TopoOp::Disconnect { at: t.usize_below(n), who: t.usize_below(n) },
            3 => TopoOp::Timeout { at: t.usize_below(n) },
            _ => TopoOp::DeliverStored { idx: t.usize_below(8), to: t.usize_below(n) },
        };
        rendered.push(json!(format!("{op:?}")));
        match op {
            TopoOp::Connect { from, to, deliver_to } => {
                if from == to {
                    continue;
                }
                let (r, parts, alive, idx) = (ms[from].local_cluster_ref, ms[from].assigned_partitions.clone(), ms[from].alive_since, ms[from].local_node_index);
                if ms[to].on_node_connected(r, &parts, alive, idx, n).is_some() {
                    // The returned OwnershipResponse is of a crate-private type; its content is,
                    // by construction in on_node_connected, the responder's replica map folded
                    // per node plus its active_nodes at this moment - rebuilt here verbatim.
                    let mut per_node: HashMap<ActorId, HashSet<u16>> = HashMap::new();
                    for (partition_id, refs) in ms[to].partition_replicas.iter() {
                        for r in refs {
                            per_node.entry(*r).or_default().insert(*partition_id);
                        }
                    }
                    let resp: Response = (per_node, ms[to].active_nodes.clone());
                    for d in deliver_to {
                        if d != to {
                            deliver_response(&mut ms[d], &resp);
                            used_response = true;
                        }
                    }
                    stored.push(resp);
                }
            }
            TopoOp::Heartbeat { from, to } => {
                if from == to {
                    continue;
                }
                let (r, parts, alive, idx) = (ms[from].local_cluster_ref, ms[from].assigned_partitions.clone(), ms[from].alive_since, ms[from].local_node_index);
                ms[to].on_heartbeat(r, &parts, alive, idx, n);
            }
            TopoOp::Disconnect { at, who } => {
                if at == who {
                    continue;
                }
                let p = *ms[who].local_cluster_ref.peer_id().unwrap();
                ms[at].on_node_disconnected(&p);
            }
            TopoOp::Timeout { at } => {
                let saved = ms[at].heartbeat_timeout;
                ms[at].heartbeat_timeout = Duration::ZERO;
                std::thread::sleep(Duration::from_micros(50));
                ms[at].check_heartbeat_timeouts();
                ms[at].heartbeat_timeout = saved;
            }
            TopoOp::DeliverStored { idx, to } => {
                if stored.is_empty() {
                    continue;
                }
                let resp = stored[idx % stored.len()].clone();
                deliver_response(&mut ms[to], &resp);
                used_response = true;
            }
        }
        // invariant: managers that know the same live members agree
        for a in 0..n {
            for b in (a + 1)..n {
                if ms[a].active_nodes != ms[b].active_nodes {
                    continue;
                }
                for p in 0..partitions {
                    let sa: BTreeSet<ActorId> = ms[a].partition_replicas.get(&p).map(|r| r.iter().copied().collect()).unwrap_or_default();
                    let sb: BTreeSet<ActorId> = ms[b].partition_replicas.get(&p).map(|r| r.iter().copied().collect()).unwrap_or_default();
                    if sa != sb {
                        out.set_sample(json!({"kind": "dynamic", "history": rendered}));
                        let names = |s: &BTreeSet<ActorId>| s.iter().map(|x| (0..n).find(|i| ms[*i].local_cluster_ref == *x).unwrap_or(99)).collect::<Vec<_>>();
                        return Some(Failure::new("C14/dynamic/replica-sets-differ", format!("after step {steps}: nodes {a} and {b} know the same {} live members but compute replica sets {:?} vs {:?} for partition {p}", ms[a].active_nodes.len(), names(&sa), names(&sb))));
                    }
                    if ms[a].get_available_replicas(p) != ms[b].get_available_replicas(p) {
                        out.set_sample(json!({"kind": "dynamic", "history": rendered}));
                        return Some(Failure::new("C14/dynamic/coordinator-order-differs", format!("after step {steps}: nodes {a} and {b} know the same live members but order the available replicas of partition {p} differently")));
                    }
                }
                out.count("agreeing_pairs_checked", 1);
            }
        }
    }
    out.nontrivial = used_response && steps >= 3;
    out.class("dynamic");
    out.set_sample(json!({"kind": "dynamic", "history": rendered}));
    None
}

impl Check for C14 {
    fn id(&self) -> &'static str {
        "C14"
    }
    fn level(&self) -> &'static str {
        "exploration"
    }
    fn rule(&self) -> String {
        "exhaustive stage (static): node counts {1..=20, 255, 256, 257, 300, 1000} x bucket counts {1,2,3,4,7,8,16} x partition counts {buckets.., +1, x3, 64} x rf 1..=12: the owners of every partition over all node indices are exactly min(rf, N) distinct nodes and equal the partition's replica set computed by a node that knows everyone. PBT stage: static triples from wider ranges, and dynamic histories: 2-5 TopologyManager instances driven by a generated sequence of membership events (ownership request with the response delivered to a chosen subset now or later - arbitrary staleness -, heartbeat, disconnect, heartbeat timeout) with equal and different alive_since values; after every step any two managers with equal active_nodes must have equal replica sets for every partition and equal get_available_replicas order. Non-trivial: dynamic history of >= 3 steps in which an ownership response was delivered; static case with rf < N.".into()
    }
    fn assumptions(&self) -> Vec<String> {
        vec!["ownership responses are converted exactly as Behaviour::handle_partition_message does (fold over the per-node map, then handle_ownership_response + ensure_local_partitions)".into(), "timeouts are forced by a zero heartbeat timeout instead of waiting".into()]
    }
    fn plan(&self, tier: Tier) -> Plan {
        Plan { cases: if tier == Tier::Quick { 1500 } else { 40_000 }, max_tape: 12, min_slots: 3, max_slots: 24, shard_cases: 100, exhaustive_shards: 25, shard_timeout_s: 1200, max_shrink_iters: 2000, ..Plan::default() }
    }
    fn run_case(&self, t: &mut Tape, _env: &Env) -> CaseOut {
        let mut out = CaseOut::default();
        if t.chance(1, 4) {
            let n = match t.weighted(&[4, 1]) {
                0 => 1 + t.usize_below(40),
                _ => *t.pick(&[255usize, 256, 257, 300, 512]),
            };
            let buckets = 1 + t.below(16) as u16;
            let partitions = buckets + t.below(48) as u16;
            let rf = 1 + t.below(12) as u8;
            if let Some((f, _)) = c14_static(n, buckets, partitions, rf) {
                out.failures.push(f);
            }
            out.nontrivial = (rf as usize) < n;
            out.class("static");
            out.set_sample(json!({"kind": "static", "nodes": n, "buckets": buckets, "partitions": partitions, "rf": rf}));
            return out;
        }
        if let Some(f) = c14_dynamic(t, &mut out) {
            out.failures.push(f);
        }
        out
    }
    fn run_exhaustive(&self, shard: u64, _total: u64, _env: &Env) -> ExhaustOut {
        let mut o = ExhaustOut::default();
        let ns: Vec<usize> = (1..=20).chain([255, 256, 257, 300, 1000]).collect();
        let n = ns[shard as usize % ns.len()];
        let mut seen = HashSet::new();
        for buckets in [1u16, 2, 3, 4, 7, 8, 16] {
            for partitions in [buckets, buckets + 1, buckets * 3, 64] {
                for rf in 1..=12u8 {
                    o.evaluations += 1;
                    if (rf as usize) < n {
                        o.nontrivial += 1;
                    }
                    if let Some((f, p)) = c14_static(n, buckets, partitions, rf) {
                        if seen.insert(f.signature.clone()) {
                            o.failures.push((f, p));
                        }
                    }
                }
            }
        }
        o.samples.push(json!({"kind": "static", "nodes": n}));
        o
    }
    fn replay_params(&self, p: &Value, _env: &Env) -> Vec<Failure> {
        c14_static(p["nodes"].as_u64().unwrap_or(1) as usize, p["buckets"].as_u64().unwrap_or(1) as u16, p["partitions"].as_u64().unwrap_or(1) as u16, p["rf"].as_u64().unwrap_or(1) as u8).map(|x| vec![x.0]).unwrap_or_default()
    }
}
