//! C21: documented and client-emitted command forms parse into the request they denote;
//! near misses are rejected.

use std::collections::{HashMap, HashSet};

use bytes::Bytes;
use combine::{Parser, eof};
use redis_protocol::resp3::types::{BytesFrame, VerbatimStringFormat};
use serde_json::{Value, json};
use sierradb::StreamId;
use sierradb::id::NAMESPACE_PARTITION_KEY;
use sierradb_cluster::subscription::{FromSequences, FromVersions, SubscriptionMatcher};
use sierradb_protocol::ExpectedVersion;
use sierradb_server::parser::frame_stream;
use sierradb_server::request::eack::EAck;
use sierradb_server::request::eappend::EAppend;
use sierradb_server::request::eget::EGet;
use sierradb_server::request::emappend::EMAppend;
use sierradb_server::request::epscan::EPScan;
use sierradb_server::request::epseq::EPSeq;
use sierradb_server::request::epsub::EPSub;
use sierradb_server::request::escan::EScan;
use sierradb_server::request::esub::ESub;
use sierradb_server::request::esver::ESVer;
use sierradb_server::request::{PartitionSelector, RangeValue};
use uuid::Uuid;
use vlib::{CaseOut, Check, Env, Plan, Tape, Tier};

#[derive(Clone, Debug)]
pub enum Tok {
    /// keyword: rendered in a tape-chosen case
    Kw(&'static str),
    /// text value
    S(String),
    /// binary value
    B(Vec<u8>),
    /// number (rendered as number frame or as text)
    N(u64),
    /// a frame of a type no command accepts
    Bad(u8),
}

fn render_tok(t: &Tok, style: u32) -> BytesFrame {
    let text = |s: Vec<u8>, style: u32| match style % 3 {
        0 => BytesFrame::BlobString { data: Bytes::from(s), attributes: None },
        1 => BytesFrame::SimpleString { data: Bytes::from(s), attributes: None },
        _ => BytesFrame::VerbatimString { data: Bytes::from(s), format: VerbatimStringFormat::Text, attributes: None },
    };
    match t {
        Tok::Kw(k) => {
            let s = match (style / 3) % 3 {
                0 => k.to_string(),
                1 => k.to_lowercase(),
                _ => k.chars().enumerate().map(|(i, c)| if i % 2 == 0 { c.to_ascii_lowercase() } else { c }).collect(),
            };
            text(s.into_bytes(), style)
        }
        Tok::S(s) => text(s.clone().into_bytes(), style),
        Tok::B(b) => text(b.clone(), style),
        Tok::N(n) => {
            if (style / 3) % 2 == 0 && *n <= i64::MAX as u64 {
                BytesFrame::Number { data: *n as i64, attributes: None }
            } else {
                text(n.to_string().into_bytes(), style)
            }
        }
        Tok::Bad(k) => match k % 3 {
            0 => BytesFrame::Null,
            1 => BytesFrame::Array { data: vec![], attributes: None },
            _ => BytesFrame::Double { data: 1.5, attributes: None },
        },
    }
}

fn tok_text(t: &Tok) -> String {
    match t {
        Tok::Kw(k) => k.to_string(),
        Tok::S(s) => s.clone(),
        Tok::B(b) => format!("<{} bytes>", b.len()),
        Tok::N(n) => n.to_string(),
        Tok::Bad(_) => "<non-string frame>".into(),
    }
}

#[derive(Clone, Debug, PartialEq)]
pub enum Expect {
    Sub { matcher: SubscriptionMatcher, window: Option<u64> },
    Append { stream: String, name: String, event_id: Option<Uuid>, partition_key: Option<Uuid>, expected: ExpectedVersion, timestamp: Option<u64>, payload: Vec<u8>, metadata: Vec<u8> },
    MAppend { partition_key: Uuid, events: Vec<(String, String, Option<Uuid>, ExpectedVersion, Option<u64>, Vec<u8>, Vec<u8>)> },
    Scan { stream: String, start: RangeValue, end: RangeValue, partition_key: Option<Uuid>, count: Option<u64> },
    PScan { partition: PartitionSelector, start: RangeValue, end: RangeValue, count: Option<u64> },
    Get(Uuid),
    SVer { stream: String, partition_key: Option<Uuid> },
    PSeq(PartitionSelector),
    Ack { id: Uuid, cursor: u64 },
}

/// Parse `frames` (the arguments after the command name) the way the server does and render
/// the request, or the parse error.
pub fn server_parse(cmd: &str, frames: &[BytesFrame]) -> Result<Expect, String> {
    macro_rules! p {
        ($ty:ident) => {
            $ty::parser().skip(eof()).parse(frame_stream(frames)).map(|(c, _)| c).map_err(|e| e.to_string())
        };
    }
    match cmd {
        "ESUB" => p!(ESub).map(|c| Expect::Sub { matcher: c.matcher, window: c.window_size }),
        "EPSUB" => p!(EPSub).map(|c| Expect::Sub { matcher: c.matcher, window: c.window_size }),
        "EAPPEND" => p!(EAppend).map(|c| Expect::Append { stream: c.stream_id.to_string(), name: c.event_name, event_id: c.event_id, partition_key: c.partition_key, expected: c.expected_version, timestamp: c.timestamp, payload: c.payload, metadata: c.metadata }),
        "EMAPPEND" => p!(EMAppend).map(|c| Expect::MAppend { partition_key: c.partition_key, events: c.events.into_iter().map(|e| (e.stream_id.to_string(), e.event_name, e.event_id, e.expected_version, e.timestamp, e.payload, e.metadata)).collect() }),
        "ESCAN" => p!(EScan).map(|c| Expect::Scan { stream: c.stream_id.to_string(), start: c.start_version, end: c.end_version, partition_key: c.partition_key, count: c.count }),
        "EPSCAN" => p!(EPScan).map(|c| Expect::PScan { partition: c.partition, start: c.start_sequence, end: c.end_sequence, count: c.count }),
        "EGET" => p!(EGet).map(|c| Expect::Get(c.event_id)),
        "ESVER" => p!(ESVer).map(|c| Expect::SVer { stream: c.stream_id.to_string(), partition_key: c.partition_key }),
        "EPSEQ" => p!(EPSeq).map(|c| Expect::PSeq(c.partition)),
        "EACK" => p!(EAck).map(|c| Expect::Ack { id: c.subscription_id, cursor: c.cursor }),
        other => Err(format!("unknown command {other}")),
    }
}

pub struct Form {
    pub cmd: &'static str,
    pub toks: Vec<Tok>,
    pub expect: Expect,
    /// indices of (keyword, value) option clauses: (keyword index, number of value tokens)
    pub clauses: Vec<(usize, usize)>,
    pub optional_clauses: usize,
    pub repeated: usize,
}

const STREAMS: [&str; 8] = ["user-123", "a", "order-42", "s", "stream-with-a-rather-long-name-that-is-exactly-64-bytes-long-xxx", "Zürich-ω", "acct:7", "x.y.z"];
const NUMS: [u64; 9] = [0, 1, 50, 100, 1000, 65535, 4294967296, i64::MAX as u64, u64::MAX];

fn pick_stream(t: &mut Tape) -> String {
    t.pick(&STREAMS).to_string()
}
fn pick_num(t: &mut Tape) -> u64 {
    if t.bool() { *t.pick(&NUMS) } else { t.below(100000) }
}
fn pick_uuid(t: &mut Tape) -> Uuid {
    let a = t.raw() as u128;
    let b = t.raw() as u128;
    Uuid::from_u128((a << 96) | (b << 40) | 0x8000_0000_0000_0000 | 7)
}
fn default_key(stream: &str) -> Uuid {
    Uuid::new_v5(&NAMESPACE_PARTITION_KEY, stream.as_bytes())
}

fn gen_esub(t: &mut Tape) -> Form {
    let n = if t.bool() { 1 } else { 2 + t.usize_below(3) };
    let mut streams: Vec<(String, Option<Uuid>)> = Vec::new();
    while streams.len() < n {
        // distinct ids; an exhausted tape must still terminate
        let mut i = t.usize_below(STREAMS.len());
        while streams.iter().any(|(x, _)| x == STREAMS[i]) {
            i = (i + 1) % STREAMS.len();
        }
        let pk = if t.chance(1, 3) { Some(pick_uuid(t)) } else { None };
        streams.push((STREAMS[i].to_string(), pk));
    }
    let mut toks = Vec::new();
    let mut clauses = Vec::new();
    let mut optional = 0;
    for (s, pk) in &streams {
        toks.push(Tok::S(s.clone()));
        if let Some(pk) = pk {
            clauses.push((toks.len(), 1));
            toks.push(Tok::Kw("PARTITION_KEY"));
            toks.push(Tok::S(pk.to_string()));
            optional += 1;
        }
    }
    #[derive(Clone)]
    enum F {
        None,
        Latest,
        All(u64),
        Map(Vec<(String, u64)>),
    }
    let from = match t.weighted(&[3, 2, 4, if n > 1 { 3 } else { 1 }]) {
        0 => F::None,
        1 => F::Latest,
        2 => F::All(pick_num(t)),
        _ => {
            let k = 1 + t.usize_below(n);
            F::Map(streams.iter().take(k).map(|(s, _)| (s.clone(), pick_num(t))).collect())
        }
    };
    match &from {
        F::None => {}
        F::Latest => {
            clauses.push((toks.len(), 1));
            toks.push(Tok::Kw("FROM"));
            toks.push(Tok::Kw("LATEST"));
            optional += 1;
        }
        F::All(v) => {
            clauses.push((toks.len(), 1));
            toks.push(Tok::Kw("FROM"));
            toks.push(Tok::N(*v));
            optional += 1;
        }
        F::Map(m) => {
            clauses.push((toks.len(), 1 + m.len()));
            toks.push(Tok::Kw("FROM"));
            toks.push(Tok::Kw("MAP"));
            for (s, v) in m {
                toks.push(Tok::S(format!("{s}={v}")));
            }
            optional += 1;
        }
    }
    let window = if t.bool() { Some(1 + pick_num(t).min(u64::MAX - 1)) } else { None };
    if let Some(w) = window {
        clauses.push((toks.len(), 1));
        toks.push(Tok::Kw("WINDOW"));
        toks.push(Tok::N(w));
        optional += 1;
    }
    let matcher = if n == 1 {
        let (s, pk) = &streams[0];
        SubscriptionMatcher::Stream {
            partition_key: pk.unwrap_or_else(|| default_key(s)),
            stream_id: StreamId::new(s.clone()).unwrap(),
            from_version: match &from {
                F::None | F::Latest => None,
                F::All(v) => Some(*v),
                F::Map(m) => m.iter().find(|(x, _)| x == s).map(|(_, v)| *v),
            },
        }
    } else {
        let ids: HashSet<(Uuid, StreamId)> = streams.iter().map(|(s, pk)| (pk.unwrap_or_else(|| default_key(s)), StreamId::new(s.clone()).unwrap())).collect();
        SubscriptionMatcher::Streams {
            from_versions: match &from {
                F::None | F::Latest => FromVersions::Latest,
                F::All(v) => FromVersions::AllStreams(*v),
                F::Map(m) => FromVersions::Streams(m.iter().map(|(s, v)| ((streams.iter().find(|(x, _)| x == s).unwrap().1.unwrap_or_else(|| default_key(s)), StreamId::new(s.clone()).unwrap()), *v)).collect()),
            },
            stream_ids: ids,
        }
    };
    Form { cmd: "ESUB", toks, expect: Expect::Sub { matcher, window }, clauses, optional_clauses: optional, repeated: n }
}

fn gen_epsub(t: &mut Tape) -> Form {
    let mut toks = Vec::new();
    let mut clauses = Vec::new();
    let mut optional = 0;
    let kind = t.weighted(&[2, 3, 3]);
    let parts: Vec<u16> = match kind {
        0 => vec![],
        1 => vec![*t.pick(&[0u16, 5, 42, 65535])],
        _ => {
            let k = 2 + t.usize_below(3);
            let mut v: Vec<u16> = Vec::new();
            while v.len() < k {
                let mut p = t.below(200) as u16;
                while v.contains(&p) {
                    p += 1;
                }
                v.push(p);
            }
            v
        }
    };
    match kind {
        0 => toks.push(Tok::S("*".into())),
        1 => toks.push(Tok::N(parts[0] as u64)),
        _ => toks.push(Tok::S(parts.iter().map(|p| p.to_string()).collect::<Vec<_>>().join(","))),
    }
    let from = match t.weighted(&[3, 2, 4, 3]) {
        0 => None,
        1 => {
            clauses.push((toks.len(), 1));
            toks.push(Tok::Kw("FROM"));
            toks.push(Tok::Kw("LATEST"));
            Some(FromSequences::Latest)
        }
        2 => {
            let v = pick_num(t);
            clauses.push((toks.len(), 1));
            toks.push(Tok::Kw("FROM"));
            toks.push(Tok::N(v));
            Some(FromSequences::AllPartitions(v))
        }
        _ => {
            let k = 1 + t.usize_below(3);
            let mut m: HashMap<u16, u64> = HashMap::new();
            let at = toks.len();
            toks.push(Tok::Kw("FROM"));
            toks.push(Tok::Kw("MAP"));
            for i in 0..k {
                let p = if i < parts.len() { parts[i] } else { 300 + i as u16 };
                let s = pick_num(t);
                if m.insert(p, s).is_none() {
                    toks.push(Tok::S(format!("{p}={s}")));
                }
            }
            let fallback = if t.bool() {
                let f = pick_num(t);
                toks.push(Tok::Kw("DEFAULT"));
                toks.push(Tok::N(f));
                Some(f)
            } else {
                None
            };
            clauses.push((at, toks.len() - at - 1));
            Some(FromSequences::Partitions { from_sequences: m, fallback })
        }
    };
    if from.is_some() {
        optional += 1;
    }
    let window = if t.bool() { Some(1 + pick_num(t).min(u64::MAX - 1)) } else { None };
    if let Some(w) = window {
        clauses.push((toks.len(), 1));
        toks.push(Tok::Kw("WINDOW"));
        toks.push(Tok::N(w));
        optional += 1;
    }
    let matcher = match kind {
        0 => SubscriptionMatcher::AllPartitions { from_sequences: from.clone().unwrap_or(FromSequences::Latest) },
        1 => SubscriptionMatcher::Partition {
            partition_id: parts[0],
            from_sequence: match &from {
                None | Some(FromSequences::Latest) => None,
                Some(FromSequences::AllPartitions(v)) => Some(*v),
                Some(FromSequences::Partitions { from_sequences, fallback }) => from_sequences.get(&parts[0]).copied().or(*fallback),
            },
        },
        _ => SubscriptionMatcher::Partitions { partition_ids: parts.iter().copied().collect(), from_sequences: from.clone().unwrap_or(FromSequences::Latest) },
    };
    Form { cmd: "EPSUB", toks, expect: Expect::Sub { matcher, window }, clauses, optional_clauses: optional, repeated: parts.len() }
}

fn gen_expected(t: &mut Tape) -> (Tok, ExpectedVersion) {
    match t.weighted(&[3, 1, 1, 1]) {
        0 => {
            let v = pick_num(t);
            (Tok::N(v), ExpectedVersion::Exact(v))
        }
        1 => (Tok::Kw("EMPTY"), ExpectedVersion::Empty),
        2 => (Tok::Kw("EXISTS"), ExpectedVersion::Exists),
        _ => (Tok::Kw("ANY"), ExpectedVersion::Any),
    }
}

/// Options of one event (EAPPEND / EMAPPEND) in a tape-chosen order.
#[allow(clippy::type_complexity)]
fn gen_event_opts(t: &mut Tape, with_pk: bool, toks: &mut Vec<Tok>, clauses: &mut Vec<(usize, usize)>) -> (Option<Uuid>, Option<Uuid>, ExpectedVersion, Option<u64>, Vec<u8>, Vec<u8>, usize) {
    let mut order: Vec<u8> = vec![0, 1, 2, 3, 4, 5];
    for i in (1..order.len()).rev() {
        let j = t.usize_below(i + 1);
        order.swap(i, j);
    }
    let (mut eid, mut pk, mut exp, mut ts, mut payload, mut meta) = (None, None, ExpectedVersion::Any, None, Vec::new(), Vec::new());
    let mut n = 0;
    for o in order {
        if !t.bool() {
            continue;
        }
        match o {
            0 => {
                let id = pick_uuid(t);
                clauses.push((toks.len(), 1));
                toks.push(Tok::Kw("EVENT_ID"));
                toks.push(Tok::S(id.to_string()));
                eid = Some(id);
            }
            1 => {
                if !with_pk {
                    continue;
                }
                let k = pick_uuid(t);
                clauses.push((toks.len(), 1));
                toks.push(Tok::Kw("PARTITION_KEY"));
                toks.push(Tok::S(k.to_string()));
                pk = Some(k);
            }
            2 => {
                let (tok, e) = gen_expected(t);
                if e == ExpectedVersion::Any {
                    continue; // indistinguishable from absence; keeps duplicate detection simple
                }
                clauses.push((toks.len(), 1));
                toks.push(Tok::Kw("EXPECTED_VERSION"));
                toks.push(tok);
                exp = e;
            }
            3 => {
                let v = pick_num(t);
                clauses.push((toks.len(), 1));
                toks.push(Tok::Kw("TIMESTAMP"));
                toks.push(Tok::N(v));
                ts = Some(v);
            }
            4 => {
                // payloads that look like keywords or stream ids must stay payloads
                let p: Vec<u8> = match t.weighted(&[3, 1, 1]) {
                    0 => format!("{{\"n\":{}}}", t.below(1000)).into_bytes(),
                    1 => b"METADATA".to_vec(),
                    _ => vec![0xff, 0x00, 0x80, t.below(256) as u8],
                };
                clauses.push((toks.len(), 1));
                toks.push(Tok::Kw("PAYLOAD"));
                toks.push(Tok::B(p.clone()));
                payload = p;
            }
            _ => {
                let m: Vec<u8> = if t.bool() { b"{\"source\":\"api\"}".to_vec() } else { b"EXPECTED_VERSION".to_vec() };
                clauses.push((toks.len(), 1));
                toks.push(Tok::Kw("METADATA"));
                toks.push(Tok::B(m.clone()));
                meta = m;
            }
        }
        n += 1;
    }
    (eid, pk, exp, ts, payload, meta, n)
}

fn gen_eappend(t: &mut Tape) -> Form {
    // positional values may look like keywords: they are positional
    let stream = if t.chance(1, 5) { t.pick(&["PAYLOAD", "from", "WINDOW", "EVENT_ID"]).to_string() } else { pick_stream(t) };
    let name = if t.chance(1, 5) { t.pick(&["EXPECTED_VERSION", "METADATA", "UserCreated"]).to_string() } else { "UserCreated".to_string() };
    let mut toks = vec![Tok::S(stream.clone()), Tok::S(name.clone())];
    let mut clauses = Vec::new();
    let (event_id, partition_key, expected, timestamp, payload, metadata, n) = gen_event_opts(t, true, &mut toks, &mut clauses);
    Form { cmd: "EAPPEND", toks, expect: Expect::Append { stream, name, event_id, partition_key, expected, timestamp, payload, metadata }, clauses, optional_clauses: n, repeated: 1 }
}

fn gen_emappend(t: &mut Tape) -> Form {
    let pk = pick_uuid(t);
    let mut toks = vec![Tok::S(pk.to_string())];
    let mut clauses = Vec::new();
    let n_events = 1 + t.usize_below(4);
    let mut events = Vec::new();
    let mut total = 0;
    for _ in 0..n_events {
        let stream = pick_stream(t);
        let name = if t.chance(1, 6) { "PAYLOAD".to_string() } else { format!("Event{}", t.below(9)) };
        toks.push(Tok::S(stream.clone()));
        toks.push(Tok::S(name.clone()));
        let (eid, _, exp, ts, payload, meta, n) = gen_event_opts(t, false, &mut toks, &mut clauses);
        total += n;
        events.push((stream, name, eid, exp, ts, payload, meta));
    }
    Form { cmd: "EMAPPEND", toks, expect: Expect::MAppend { partition_key: pk, events }, clauses, optional_clauses: total, repeated: n_events }
}

fn gen_range(t: &mut Tape, start: bool) -> (Tok, RangeValue) {
    match t.weighted(&[3, 2]) {
        0 => {
            let v = pick_num(t);
            (Tok::N(v), RangeValue::Value(v))
        }
        _ => {
            if start {
                (Tok::S("-".into()), RangeValue::Start)
            } else {
                (Tok::S("+".into()), RangeValue::End)
            }
        }
    }
}

fn gen_escan(t: &mut Tape) -> Form {
    let stream = pick_stream(t);
    let (st, sv) = gen_range(t, true);
    let (et, ev) = gen_range(t, false);
    let mut toks = vec![Tok::S(stream.clone()), st, et];
    let mut clauses = Vec::new();
    let mut pk = None;
    let mut count = None;
    let first_pk = t.bool();
    let mut n = 0;
    for i in 0..2 {
        let do_pk = (i == 0) == first_pk;
        if !t.bool() {
            continue;
        }
        n += 1;
        if do_pk {
            let k = pick_uuid(t);
            clauses.push((toks.len(), 1));
            toks.push(Tok::Kw("PARTITION_KEY"));
            toks.push(Tok::S(k.to_string()));
            pk = Some(k);
        } else {
            let c = pick_num(t);
            clauses.push((toks.len(), 1));
            toks.push(Tok::Kw("COUNT"));
            toks.push(Tok::N(c));
            count = Some(c);
        }
    }
    Form { cmd: "ESCAN", toks, expect: Expect::Scan { stream, start: sv, end: ev, partition_key: pk, count }, clauses, optional_clauses: n, repeated: 1 }
}

fn gen_selector(t: &mut Tape) -> (Tok, PartitionSelector) {
    if t.bool() {
        let p = *t.pick(&[0u16, 42, 1023, 65535]);
        (Tok::N(p as u64), PartitionSelector::ById(p))
    } else {
        let k = pick_uuid(t);
        (Tok::S(k.to_string()), PartitionSelector::ByKey(k))
    }
}

fn gen_simple(t: &mut Tape) -> Form {
    match t.below(5) {
        0 => {
            let (pt, ps) = gen_selector(t);
            let (st, sv) = gen_range(t, true);
            let (et, ev) = gen_range(t, false);
            let mut toks = vec![pt, st, et];
            let mut clauses = Vec::new();
            let count = if t.bool() {
                let c = pick_num(t);
                clauses.push((toks.len(), 1));
                toks.push(Tok::Kw("COUNT"));
                toks.push(Tok::N(c));
                Some(c)
            } else {
                None
            };
            Form { cmd: "EPSCAN", toks, expect: Expect::PScan { partition: ps, start: sv, end: ev, count }, optional_clauses: clauses.len(), clauses, repeated: 1 }
        }
        1 => {
            let id = pick_uuid(t);
            Form { cmd: "EGET", toks: vec![Tok::S(id.to_string())], expect: Expect::Get(id), clauses: vec![], optional_clauses: 0, repeated: 1 }
        }
        2 => {
            let stream = pick_stream(t);
            let mut toks = vec![Tok::S(stream.clone())];
            let mut clauses = Vec::new();
            let pk = if t.bool() {
                let k = pick_uuid(t);
                clauses.push((toks.len(), 1));
                toks.push(Tok::Kw("PARTITION_KEY"));
                toks.push(Tok::S(k.to_string()));
                Some(k)
            } else {
                None
            };
            Form { cmd: "ESVER", toks, expect: Expect::SVer { stream, partition_key: pk }, optional_clauses: clauses.len(), clauses, repeated: 1 }
        }
        3 => {
            let (pt, ps) = gen_selector(t);
            Form { cmd: "EPSEQ", toks: vec![pt], expect: Expect::PSeq(ps), clauses: vec![], optional_clauses: 0, repeated: 1 }
        }
        _ => {
            let id = pick_uuid(t);
            let c = pick_num(t);
            Form { cmd: "EACK", toks: vec![Tok::S(id.to_string()), Tok::N(c)], expect: Expect::Ack { id, cursor: c }, clauses: vec![], optional_clauses: 0, repeated: 1 }
        }
    }
}

pub fn gen_form(t: &mut Tape) -> Form {
    match t.weighted(&[4, 3, 3, 3, 2, 2]) {
        0 => gen_esub(t),
        1 => gen_epsub(t),
        2 => gen_eappend(t),
        3 => gen_emappend(t),
        4 => gen_escan(t),
        _ => gen_simple(t),
    }
}

/// One mutation that takes a documented form out of the grammar. Returns None when the chosen
/// mutation does not apply to this form.
fn near_miss(t: &mut Tape, f: &Form) -> Option<(Vec<Tok>, &'static str)> {
    let mut toks = f.toks.clone();
    match t.below(5) {
        0 => {
            // value missing after an option keyword
            if f.clauses.is_empty() {
                return None;
            }
            let (k, n) = f.clauses[t.usize_below(f.clauses.len())];
            toks.drain(k + 1..k + 1 + n);
            Some((toks, "missing-value-after-keyword"))
        }
        1 => {
            // malformed value
            let idx: Vec<usize> = f.clauses.iter().filter(|(k, _)| matches!(&f.toks[*k], Tok::Kw(w) if ["FROM", "WINDOW", "COUNT", "TIMESTAMP", "EXPECTED_VERSION", "EVENT_ID", "PARTITION_KEY"].contains(w))).map(|(k, _)| *k).collect();
            if idx.is_empty() {
                return None;
            }
            let k = idx[t.usize_below(idx.len())];
            toks[k + 1] = Tok::S("foo".into());
            Some((toks, "malformed-value"))
        }
        2 => {
            // duplicated clause (clauses whose repetition the grammar does not allow)
            let idx: Vec<(usize, usize)> = f
                .clauses
                .iter()
                .copied()
                .filter(|(k, _)| match &f.toks[*k] {
                    Tok::Kw("PARTITION_KEY") => f.cmd != "ESUB",
                    Tok::Kw("EXPECTED_VERSION") => matches!(f.toks[*k + 1], Tok::N(_)),
                    Tok::Kw(_) => true,
                    _ => false,
                })
                .collect();
            if idx.is_empty() {
                return None;
            }
            let (k, n) = idx[t.usize_below(idx.len())];
            let clause: Vec<Tok> = f.toks[k..k + 1 + n].to_vec();
            let at = k + 1 + n;
            for (i, c) in clause.into_iter().enumerate() {
                toks.insert(at + i, c);
            }
            Some((toks, "duplicated-clause"))
        }
        3 => {
            // one trailing token after a complete command
            let ok = match f.cmd {
                "ESUB" | "EPSUB" => f.toks.iter().any(|x| matches!(x, Tok::Kw("WINDOW"))),
                _ => true,
            };
            if !ok {
                return None;
            }
            toks.push(Tok::S("extra".into()));
            Some((toks, "trailing-token"))
        }
        _ => {
            // a frame type no argument accepts in the first position
            toks[0] = Tok::Bad(t.below(3) as u8);
            Some((toks, "wrong-frame-type"))
        }
    }
}

fn dbg(text: &str) {
    if std::env::var("VERIF_DEBUG").is_ok() {
        eprintln!("[C21] {text}");
    }
}

fn render(toks: &[Tok], t: &mut Tape) -> Vec<BytesFrame> {
    dbg(&toks.iter().map(tok_text).collect::<Vec<_>>().join(" "));
    toks.iter().map(|k| render_tok(k, t.raw())).collect()
}

// ------------------------------------------------------------------------------------------
// client capture

struct Capture {
    sent: Vec<Vec<u8>>,
}

impl redis::ConnectionLike for Capture {
    fn req_packed_command(&mut self, cmd: &[u8]) -> redis::RedisResult<redis::Value> {
        self.sent.push(cmd.to_vec());
        Err(redis::RedisError::from((redis::ErrorKind::Io, "captured")))
    }
    fn req_packed_commands(&mut self, cmd: &[u8], _offset: usize, _count: usize) -> redis::RedisResult<Vec<redis::Value>> {
        self.sent.push(cmd.to_vec());
        Err(redis::RedisError::from((redis::ErrorKind::Io, "captured")))
    }
    fn get_db(&self) -> i64 {
        0
    }
    fn check_connection(&mut self) -> bool {
        true
    }
    fn is_open(&self) -> bool {
        true
    }
}

fn decode_command(bytes: &[u8]) -> Option<(String, Vec<BytesFrame>)> {
    let (frame, _) = redis_protocol::resp3::decode::complete::decode_bytes(&Bytes::copy_from_slice(bytes)).ok()??;
    match frame {
        BytesFrame::Array { data, .. } => {
            let name = match data.first()? {
                BytesFrame::BlobString { data, .. } => String::from_utf8(data.to_vec()).ok()?.to_uppercase(),
                _ => return None,
            };
            Some((name, data[1..].to_vec()))
        }
        _ => None,
    }
}

/// Calls one command builder of the Rust client; returns what it denotes.
fn gen_client_call(t: &mut Tape) -> (Vec<u8>, Expect, String) {
    use sierradb_client::{Commands, EAppendOptions, EMAppendEvent};
    let mut cap = Capture { sent: Vec::new() };
    let stream = pick_stream(t);
    let sid = StreamId::new(stream.clone()).unwrap();
    let key = pick_uuid(t);
    let n = pick_num(t);
    let (expect, what): (Expect, String) = match t.below(20) {
        0 => {
            let _ = cap.esub(stream.as_str());
            (Expect::Sub { matcher: SubscriptionMatcher::Stream { partition_key: default_key(&stream), stream_id: sid, from_version: None }, window: None }, "esub".into())
        }
        1 => {
            let _ = cap.esub_with_partition_key(stream.as_str(), key);
            (Expect::Sub { matcher: SubscriptionMatcher::Stream { partition_key: key, stream_id: sid, from_version: None }, window: None }, "esub_with_partition_key".into())
        }
        2 => {
            let _ = cap.esub_from_version(stream.as_str(), n);
            (Expect::Sub { matcher: SubscriptionMatcher::Stream { partition_key: default_key(&stream), stream_id: sid, from_version: Some(n) }, window: None }, "esub_from_version".into())
        }
        3 => {
            let _ = cap.esub_with_partition_and_version(stream.as_str(), key, n);
            (Expect::Sub { matcher: SubscriptionMatcher::Stream { partition_key: key, stream_id: sid, from_version: Some(n) }, window: None }, "esub_with_partition_and_version".into())
        }
        4 => {
            let p = t.below(65536) as u16;
            let _ = cap.epsub_by_id(p);
            (Expect::Sub { matcher: SubscriptionMatcher::Partition { partition_id: p, from_sequence: None }, window: None }, "epsub_by_id".into())
        }
        5 => {
            let p = t.below(65536) as u16;
            let _ = cap.epsub_by_id_from_sequence(p, n);
            (Expect::Sub { matcher: SubscriptionMatcher::Partition { partition_id: p, from_sequence: Some(n) }, window: None }, "epsub_by_id_from_sequence".into())
        }
        6 => {
            // a partition key denotes the partition hash(key) % partitions; the server side
            // resolves it, so any Partition matcher is accepted for the comparison below
            let _ = cap.epsub_by_key(key);
            (Expect::Sub { matcher: SubscriptionMatcher::Partition { partition_id: u16::MAX, from_sequence: None }, window: None }, "epsub_by_key".into())
        }
        7 => {
            let _ = cap.epsub_by_key_from_sequence(key, n);
            (Expect::Sub { matcher: SubscriptionMatcher::Partition { partition_id: u16::MAX, from_sequence: Some(n) }, window: None }, "epsub_by_key_from_sequence".into())
        }
        8 | 9 => {
            let mut o = EAppendOptions::new();
            let mut e = Expect::Append { stream: stream.clone(), name: "Ev".into(), event_id: None, partition_key: None, expected: ExpectedVersion::Any, timestamp: None, payload: vec![], metadata: vec![] };
            if let Expect::Append { event_id, partition_key, expected, payload, metadata, .. } = &mut e {
                if t.bool() {
                    o = o.event_id(key);
                    *event_id = Some(key);
                }
                if t.bool() {
                    let k2 = pick_uuid(t);
                    o = o.partition_key(k2);
                    *partition_key = Some(k2);
                }
                let ev = [ExpectedVersion::Any, ExpectedVersion::Empty, ExpectedVersion::Exists, ExpectedVersion::Exact(n)][t.usize_below(4)];
                o = o.expected_version(ev);
                *expected = ev;
                if t.bool() {
                    o = o.payload(b"{\"a\":1}".to_vec());
                    *payload = b"{\"a\":1}".to_vec();
                }
                if t.bool() {
                    o = o.metadata(b"PAYLOAD".to_vec());
                    *metadata = b"PAYLOAD".to_vec();
                }
            }
            let _ = cap.eappend(stream.as_str(), "Ev", o);
            (e, "eappend".into())
        }
        10 | 11 => {
            let k = 1 + t.usize_below(3);
            let mut evs = Vec::new();
            let mut exp = Vec::new();
            for i in 0..k {
                let s = pick_stream(t);
                let mut e = EMAppendEvent::new(s.clone(), format!("E{i}"));
                let ev = [ExpectedVersion::Any, ExpectedVersion::Empty, ExpectedVersion::Exact(pick_num(t))][t.usize_below(3)];
                e = e.expected_version(ev);
                let payload = if t.bool() { b"x".to_vec() } else { vec![] };
                if !payload.is_empty() {
                    e = e.payload(payload.clone());
                }
                evs.push(e);
                exp.push((s, format!("E{i}"), None, ev, None, payload, vec![]));
            }
            let _ = cap.emappend(key, &evs);
            (Expect::MAppend { partition_key: key, events: exp }, "emappend".into())
        }
        12 => {
            let _ = cap.eget(key);
            (Expect::Get(key), "eget".into())
        }
        13 => {
            let end = if t.bool() { Some(pick_num(t)) } else { None };
            let count = if t.bool() { Some(pick_num(t)) } else { None };
            let _ = cap.escan(stream.as_str(), n, end, count);
            (Expect::Scan { stream: stream.clone(), start: RangeValue::Value(n), end: end.map(RangeValue::Value).unwrap_or(RangeValue::End), partition_key: None, count: Some(count.unwrap_or(100)) }, "escan".into())
        }
        14 => {
            let end = if t.bool() { Some(pick_num(t)) } else { None };
            let _ = cap.escan_with_partition_key(stream.as_str(), key, n, end, None);
            (Expect::Scan { stream: stream.clone(), start: RangeValue::Value(n), end: end.map(RangeValue::Value).unwrap_or(RangeValue::End), partition_key: Some(key), count: Some(100) }, "escan_with_partition_key".into())
        }
        15 => {
            let p = t.below(65536) as u16;
            let end = if t.bool() { Some(pick_num(t)) } else { None };
            let _ = cap.epscan_by_id(p, n, end, None);
            (Expect::PScan { partition: PartitionSelector::ById(p), start: RangeValue::Value(n), end: end.map(RangeValue::Value).unwrap_or(RangeValue::End), count: Some(100) }, "epscan_by_id".into())
        }
        16 => {
            let _ = cap.epscan_by_key(key, n, None, Some(7));
            (Expect::PScan { partition: PartitionSelector::ByKey(key), start: RangeValue::Value(n), end: RangeValue::End, count: Some(7) }, "epscan_by_key".into())
        }
        17 => {
            let _ = cap.esver_with_partition_key(stream.as_str(), key);
            (Expect::SVer { stream: stream.clone(), partition_key: Some(key) }, "esver_with_partition_key".into())
        }
        18 => {
            let _ = cap.epseq_by_key(key);
            (Expect::PSeq(PartitionSelector::ByKey(key)), "epseq_by_key".into())
        }
        _ => {
            let _ = cap.eack(key, n);
            (Expect::Ack { id: key, cursor: n }, "eack".into())
        }
    };
    (cap.sent.pop().unwrap_or_default(), expect, what)
}

pub struct C21;

impl Check for C21 {
    fn id(&self) -> &'static str {
        "C21"
    }
    fn level(&self) -> &'static str {
        "exploration"
    }
    fn rule(&self) -> String {
        "three generators. grammar: every documented command (ESUB, EPSUB, EAPPEND, EMAPPEND, ESCAN, EPSCAN, EGET, ESVER, EPSEQ, EACK) is rendered from its rustdoc syntax with optional clauses present/absent in any order the grammar allows, 1-4 streams/partitions/events, keywords in upper/lower/mixed case, values from boundary sets (64-byte and non-ASCII stream ids, 0, 2^32, i64::MAX, u64::MAX, partition 65535, payloads and positional values that look like keywords), each token as blob / simple / verbatim string or number frame - together with the request it denotes; <Cmd>::parser().skip(eof()) must yield exactly that request. client: the command builders of sierradb-client are executed against a capturing connection and the bytes they emit are decoded and parsed by the server parser; the result must be the request the builder's name and arguments denote. near-miss: one mutation of a grammar form (value missing after a keyword, malformed value, duplicated clause, one trailing token, wrong frame type) must be rejected. Non-trivial: a form with >= 2 optional clauses or >= 2 streams/partitions/events.".into()
    }
    fn assumptions(&self) -> Vec<String> {
        vec![
            "stream ids that equal an option keyword are only generated in positional slots (EAPPEND stream/event name), not in ESUB lists where the grammar itself is ambiguous".into(),
            "a duplicated EXPECTED_VERSION clause is only treated as a near miss when both values are numbers ('any' is indistinguishable from absence in the parsed request)".into(),
            "client subscription builders that take a partition key (EPSUB <uuid>) denote a single-partition subscription; which partition id the server derives is not compared".into(),
            "the async SubscriptionManager builders (WINDOW / range / MAP variants) are not captured; their syntax is covered by the grammar generator only where the server documents it".into(),
        ]
    }
    fn plan(&self, tier: Tier) -> Plan {
        Plan { cases: if tier == Tier::Quick { 240_000 } else { 2_400_000 }, max_tape: 120, shard_cases: if tier == Tier::Quick { 15_000 } else { 50_000 }, max_shrink_iters: 3000, ..Plan::default() }
    }
    fn run_case(&self, t: &mut Tape, _env: &Env) -> CaseOut {
        let mut out = CaseOut::default();
        match t.weighted(&[5, 2, 4]) {
            0 => {
                let f = gen_form(t);
                let frames = render(&f.toks, t);
                let text = format!("{} {}", f.cmd, f.toks.iter().map(tok_text).collect::<Vec<_>>().join(" "));
                out.class(&format!("grammar/{}", f.cmd));
                out.nontrivial = f.optional_clauses >= 2 || f.repeated >= 2;
                match server_parse(f.cmd, &frames) {
                    Ok(got) if got == f.expect => {}
                    Ok(got) => out.fail(format!("C21/grammar/{}/misparsed", f.cmd), format!("`{text}` parses to {got:?}, but it denotes {:?}", f.expect)),
                    Err(e) => out.fail(format!("C21/grammar/{}/rejected", f.cmd), format!("documented form `{text}` is rejected: {e}")),
                }
                out.set_sample(json!({"kind": "grammar", "command": text}));
            }
            1 => {
                let (bytes, expect, what) = gen_client_call(t);
                out.class(&format!("client/{what}"));
                out.nontrivial = true;
                match decode_command(&bytes) {
                    None => out.fail(format!("C21/client/{what}/undecodable"), "the client emitted bytes that do not decode as a RESP command".to_string()),
                    Some((cmd, frames)) => {
                        let text = format!("{cmd} {}", frames.iter().map(|f| match f { BytesFrame::BlobString { data, .. } => String::from_utf8_lossy(data).to_string(), _ => "?".into() }).collect::<Vec<_>>().join(" "));
                        match server_parse(&cmd, &frames) {
                            Ok(got) => {
                                let same = match (&got, &expect) {
                                    // partition derived from a key: only the shape is compared
                                    (Expect::Sub { matcher: SubscriptionMatcher::Partition { from_sequence: a, .. }, window: wa }, Expect::Sub { matcher: SubscriptionMatcher::Partition { partition_id: u16::MAX, from_sequence: b }, window: wb }) => a == b && wa == wb,
                                    _ => got == expect,
                                };
                                if !same {
                                    out.fail(format!("C21/client/{what}/misparsed"), format!("client call {what} emits `{text}`, which the server parses to {got:?}; it denotes {expect:?}"));
                                }
                            }
                            Err(e) => out.fail(format!("C21/client/{what}/rejected"), format!("client call {what} emits `{text}`, which the server rejects: {e}")),
                        }
                        out.set_sample(json!({"kind": "client", "call": what, "emits": text}));
                    }
                }
            }
            _ => {
                let f = gen_form(t);
                let Some((toks, how)) = near_miss(t, &f) else {
                    out.class("near-miss/not-applicable");
                    out.set_sample(json!({"kind": "near-miss", "skipped": f.cmd}));
                    return out;
                };
                let frames = render(&toks, t);
                let text = format!("{} {}", f.cmd, toks.iter().map(tok_text).collect::<Vec<_>>().join(" "));
                out.class(&format!("near-miss/{how}"));
                out.nontrivial = f.optional_clauses >= 2 || f.repeated >= 2;
                if let Ok(got) = server_parse(f.cmd, &frames) {
                    out.fail(format!("C21/near-miss/{}/{how}-accepted", f.cmd), format!("`{text}` ({how}) is outside the documented grammar but is accepted as {got:?}"));
                }
                out.set_sample(json!({"kind": "near-miss", "mutation": how, "command": text}));
            }
        }
        out
    }
}

pub fn _unused(_: Value) {}
