//! C26: the write circuit breaker under harness-owned schedules.
//!
//! Hook H4 replaces the breaker's wall clock. The replacement is also the yield point: in every
//! branch of the breaker that can race, the clock is read *before* the dependent atomic load, so
//! switching threads exactly there (and between operations) reaches the racy windows.

use std::cell::Cell;
use std::panic::{AssertUnwindSafe, catch_unwind};
use std::sync::{Arc, Condvar, Mutex};
use std::time::Duration;

use serde_json::{Value, json};
use sierradb_cluster::circuit_breaker::{CircuitState, WriteCircuitBreaker};
use vlib::{CaseOut, Check, Env, Plan, Tape, Tier};

pub struct C26;

#[derive(Clone, Copy, Debug, PartialEq)]
enum Op {
    Allow,
    Success,
    Failure,
    Recovery,
}

struct Sched {
    /// which thread may run
    current: usize,
    finished: Vec<bool>,
    /// schedule decisions (from the tape), consumed at yield points
    decisions: Vec<u32>,
    next_decision: usize,
    /// clock advances (ms), consumed at yield points
    advances: Vec<u64>,
    next_advance: usize,
    now: u64,
    trace: Vec<Value>,
    /// per thread: did the running op read the clock (=> it was in a time-dependent branch)
    clock_reads_in_op: Vec<u32>,
    switches_inside_op: u64,
    fine_switches: std::collections::BTreeSet<&'static str>,
}

struct Shared {
    st: Mutex<Sched>,
    cv: Condvar,
}

thread_local! {
    static ME: Cell<Option<usize>> = const { Cell::new(None) };
}

impl Shared {
    /// Called by the running thread at a yield point: maybe hand over to another thread, then
    /// wait until scheduled again.
    fn yield_point(&self, me: usize, inside_op: bool) {
        self.yield_at(me, inside_op, None)
    }

    /// `fine` = name of a scheduling point between two atomic steps of a transition (hook H4);
    /// a switch there is recorded, because a violation that needs one is a different finding
    /// from one that only needs switches at operation boundaries and clock reads
    fn yield_at(&self, me: usize, inside_op: bool, fine: Option<&'static str>) {
        let mut s = self.st.lock().unwrap();
        let runnable: Vec<usize> = (0..s.finished.len()).filter(|i| !s.finished[*i]).collect();
        if runnable.len() > 1 {
            let d = s.decisions.get(s.next_decision).copied().unwrap_or(0);
            s.next_decision += 1;
            // decision 0 = keep running (simplest schedule); otherwise pick among the others
            let others: Vec<usize> = runnable.iter().copied().filter(|i| *i != me).collect();
            let pick = ((d as u64 * (others.len() as u64 + 1)) >> 32) as usize;
            if pick > 0 {
                let next = others[pick - 1];
                if inside_op {
                    s.switches_inside_op += 1;
                }
                if let Some(point) = fine {
                    s.fine_switches.insert(point);
                    s.trace.push(json!({"switch": [me, next], "inside_op": inside_op, "between_atomic_steps_at": point}));
                } else {
                    s.trace.push(json!({"switch": [me, next], "inside_op": inside_op}));
                }
                s.current = next;
                self.cv.notify_all();
            }
        }
        while s.current != me {
            s = self.cv.wait(s).unwrap();
        }
    }

    fn finish(&self, me: usize) {
        let mut s = self.st.lock().unwrap();
        s.finished[me] = true;
        if let Some(next) = (0..s.finished.len()).find(|i| !s.finished[*i]) {
            s.current = next;
        }
        self.cv.notify_all();
    }

    fn wait_turn(&self, me: usize) {
        let mut s = self.st.lock().unwrap();
        while s.current != me {
            s = self.cv.wait(s).unwrap();
        }
    }
}

#[derive(Default)]
struct Judge {
    /// logical time: advanced at the begin and at the completion of every operation
    tick: u64,
    /// (begin, completion) of every record_failure call
    failures: Vec<(u64, Option<u64>)>,
    /// latest begin time among the record_success calls that have completed. An operation may
    /// take effect anywhere between its begin and its completion, so the most permissive
    /// reading puts every completed success at its begin and every failure as late as possible:
    /// the failures that can count as consecutive at an opening are those that were still
    /// running (or had not begun) at that time
    latest_completed_success_begin: u64,
    /// probes admitted in the current half-open episode (incl. the transition call)
    episode_probes: u32,
    last_state: Option<CircuitState>,
    violation: Option<(String, String)>,
    opens: u32,
    episodes: u32,
    max_probes_seen: u32,
}

fn state_name(s: CircuitState) -> &'static str {
    match s {
        CircuitState::Closed => "closed",
        CircuitState::Open => "open",
        CircuitState::HalfOpen => "half-open",
    }
}

impl Check for C26 {
    fn id(&self) -> &'static str {
        "C26"
    }
    fn level(&self) -> &'static str {
        "exploration"
    }
    fn rule(&self) -> String {
        "case = breaker configuration (failure threshold 1-4, recovery timeout 0-50 ms, half-open max calls 1-3, success threshold 1-3) + 1-3 threads each with a generated list of operations (should_allow_request, record_success, record_failure, estimated_recovery_time) + a schedule and clock advances (0-60 ms, including no advance) taken from the tape. Exactly one thread runs at a time; threads are switched only at yield points (before each operation, at each clock read inside the breaker, and - named, recorded - after each state change inside a transition, i.e. between two of its atomic steps; all through hook H4), so the tape fully determines the interleaving and a failure replays and shrinks. Oracles: no operation panics; a Closed->Open step needs at least failure_threshold record_failure calls that can have taken effect (were still running or began) after the begin of the latest completed record_success - the most permissive placement of every operation inside its own interval; per half-open episode at most half_open_max_calls requests are admitted, counting the call that performs the Open->HalfOpen transition. Non-trivial: a thread switch happened at a clock read inside an operation, or (single thread) a complete open -> half-open -> probe sequence ran.".into()
    }
    fn assumptions(&self) -> Vec<String> {
        vec![
            "the virtual clock is monotone (it never goes back), as the property's quantifier says".into(),
            "atomic operations between two yield points of one thread are executed without interleaving; only the windows opened by clock reads and operation boundaries are explored".into(),
            "a should_allow_request call counts as a probe when it returned true after reading the clock (only the Open branch reads it) or when the breaker was half-open when the call started".into(),
        ]
    }
    fn plan(&self, tier: Tier) -> Plan {
        Plan { cases: if tier == Tier::Quick { 240_000 } else { 2_400_000 }, max_tape: 6, min_slots: 4, max_slots: 40, shard_cases: if tier == Tier::Quick { 7500 } else { 25_000 }, max_shrink_iters: 4000, ..Plan::default() }
    }
    fn run_case(&self, t: &mut Tape, _env: &Env) -> CaseOut {
        let mut out = CaseOut::default();
        let threshold = 1 + t.below(4) as u32;
        let recovery_ms = *t.pick(&[10u64, 0, 1, 50]);
        let max_calls = 1 + t.below(3) as u32;
        let success_threshold = 1 + t.below(3) as u32;
        let n_threads = 1 + t.usize_below(3);
        let mut lists: Vec<Vec<Op>> = vec![Vec::new(); n_threads];
        let mut decisions = Vec::new();
        let mut advances = Vec::new();
        let mut i = 0;
        while t.next_slot() {
            let op = [Op::Failure, Op::Allow, Op::Allow, Op::Success, Op::Failure, Op::Recovery][t.usize_below(6)];
            lists[i % n_threads].push(op);
            i += 1;
            // a few schedule decisions and clock advances per op
            for _ in 0..3 {
                decisions.push(t.raw());
            }
            advances.push(*t.pick(&[0u64, 1, 5, 10, 11, 60]));
            advances.push(*t.pick(&[0u64, 1, 10, 60]));
        }
        let shared = Arc::new(Shared {
            st: Mutex::new(Sched { current: 0, finished: vec![false; n_threads], decisions, next_decision: 0, advances, next_advance: 0, now: 1_000_000, trace: Vec::new(), clock_reads_in_op: vec![0; n_threads], switches_inside_op: 0, fine_switches: Default::default() }),
            cv: Condvar::new(),
        });
        // clock hook: advance the virtual time, then yield
        {
            let shared = shared.clone();
            sierradb_cluster::verif::set_clock(Some(Arc::new(move || {
                let me = ME.with(|m| m.get());
                let Some(me) = me else {
                    return Some(shared.st.lock().unwrap().now);
                };
                {
                    let mut s = shared.st.lock().unwrap();
                    let adv = s.advances.get(s.next_advance).copied().unwrap_or(0);
                    s.next_advance += 1;
                    s.now += adv;
                    s.clock_reads_in_op[me] += 1;
                }
                let now = shared.st.lock().unwrap().now;
                // the value is read *before* the yield: other threads may move the clock and the
                // breaker's timestamps on while this thread still holds the old `now`
                shared.yield_point(me, true);
                Some(now)
            })));
        }
        {
            let shared = shared.clone();
            // half of the cases (by a hash of the header slot) never switch between atomic steps, so
            // the coarser schedules - whose violations are not covered by the listed findings -
            // keep being explored at full strength
            let fine_enabled = vlib::fnv1a(&t.slots().first().map(|s| s.iter().flat_map(|w| w.to_le_bytes()).collect::<Vec<u8>>()).unwrap_or_default()) % 2 == 0;
            sierradb_cluster::verif::set_sched(Some(Arc::new(move |point: &'static str| {
                if !fine_enabled {
                    return;
                }
                if let Some(me) = ME.with(|m| m.get()) {
                    shared.yield_at(me, true, Some(point));
                }
            })));
        }
        let breaker = Arc::new(WriteCircuitBreaker::new(threshold, Duration::from_millis(recovery_ms), max_calls, success_threshold));
        let judge = Arc::new(Mutex::new(Judge { last_state: Some(CircuitState::Closed), ..Default::default() }));
        let mut handles = Vec::new();
        for (ti, ops) in lists.iter().cloned().enumerate() {
            let (shared, breaker, judge) = (shared.clone(), breaker.clone(), judge.clone());
            handles.push(std::thread::spawn(move || {
                ME.with(|m| m.set(Some(ti)));
                shared.wait_turn(ti);
                for op in ops {
                    shared.yield_point(ti, false);
                    if judge.lock().unwrap().violation.is_some() {
                        break;
                    }
                    // observe the state right before the op (we are the only running thread)
                    let pre = breaker.current_state();
                    let (my_failure, my_begin) = {
                        let mut j = judge.lock().unwrap();
                        observe(&mut j, pre, threshold);
                        j.tick += 1;
                        let begin = j.tick;
                        let mut idx = None;
                        if op == Op::Failure {
                            j.failures.push((begin, None));
                            idx = Some(j.failures.len() - 1);
                        }
                        (idx, begin)
                    };
                    shared.st.lock().unwrap().clock_reads_in_op[ti] = 0;
                    let r = catch_unwind(AssertUnwindSafe(|| match op {
                        Op::Allow => Some(breaker.should_allow_request()),
                        Op::Success => {
                            breaker.record_success();
                            None
                        }
                        Op::Failure => {
                            breaker.record_failure();
                            None
                        }
                        Op::Recovery => {
                            let _ = breaker.estimated_recovery_time();
                            None
                        }
                    }));
                    let post = breaker.current_state();
                    let clock_reads = shared.st.lock().unwrap().clock_reads_in_op[ti];
                    let mut j = judge.lock().unwrap();
                    j.tick += 1;
                    let done = j.tick;
                    if let Some(i) = my_failure {
                        j.failures[i].1 = Some(done);
                    }
                    shared.st.lock().unwrap().trace.push(json!({"thread": ti, "op": format!("{op:?}"), "pre": state_name(pre), "post": state_name(post), "result": r.as_ref().ok().cloned().flatten()}));
                    match r {
                        Err(_) => {
                            let p = vlib::peek_panics().last().map(|p| format!("{} ({})", p.message, p.location)).unwrap_or_default();
                            j.violation = Some(("panic".into(), format!("{op:?} panicked on thread {ti}: {p}")));
                            break;
                        }
                        Ok(res) => {
                            if op == Op::Success {
                                j.latest_completed_success_begin = j.latest_completed_success_begin.max(my_begin);
                            }
                            if op == Op::Allow && res == Some(true) {
                                let open_branch = clock_reads > 0; // only the Open branch reads the clock
                                if open_branch || pre == CircuitState::HalfOpen {
                                    if open_branch && j.episode_probes == 0 {
                                        j.episodes += 1;
                                    }
                                    j.episode_probes += 1;
                                    j.max_probes_seen = j.max_probes_seen.max(j.episode_probes);
                                    if j.episode_probes > max_calls {
                                        j.violation = Some(("too-many-half-open-probes".into(), format!("{} requests were admitted in one half-open episode (half_open_max_calls = {max_calls}); the call performing the Open->HalfOpen transition counts as the first probe", j.episode_probes)));
                                        break;
                                    }
                                }
                            }
                            observe(&mut j, post, threshold);
                            if op == Op::Failure && post == CircuitState::Open {
                                j.episode_probes = 0; // a new open period starts
                            }
                        }
                    }
                }
                shared.finish(ti);
            }));
        }
        for h in handles {
            let _ = h.join();
        }
        sierradb_cluster::verif::set_clock(None);
        sierradb_cluster::verif::set_sched(None);
        let j = judge.lock().unwrap();
        let s = shared.st.lock().unwrap();
        if let Some((sig, msg)) = &j.violation {
            if s.fine_switches.is_empty() || sig == "panic" {
                out.fail(format!("C26/{sig}"), msg.clone());
            } else {
                let points: Vec<&str> = s.fine_switches.iter().copied().collect();
                out.fail(format!("C26/{sig}/needs-switch-between-atomic-steps"), format!("{msg} [the schedule switches threads between two atomic steps of a transition, at: {}]", points.join(", ")));
            }
        }
        out.count("thread_switches_inside_operations", s.switches_inside_op);
        out.count("half_open_episodes", j.episodes as u64);
        out.count("opens", j.opens as u64);
        if !s.fine_switches.is_empty() {
            out.class("switched-between-atomic-steps");
        }
        if n_threads > 1 {
            out.class("concurrent");
        } else {
            out.class("sequential");
        }
        out.nontrivial = s.switches_inside_op > 0 || (n_threads == 1 && j.episodes > 0);
        out.set_sample(json!({"threshold": threshold, "recovery_ms": recovery_ms, "half_open_max_calls": max_calls, "success_threshold": success_threshold, "threads": lists.iter().map(|l| l.iter().map(|o| format!("{o:?}")).collect::<Vec<_>>()).collect::<Vec<_>>(), "trace": s.trace}));
        out
    }
}

fn observe(j: &mut Judge, now_state: CircuitState, threshold: u32) {
    if let Some(prev) = j.last_state {
        if prev == CircuitState::Closed && now_state == CircuitState::Open {
            j.opens += 1;
            let t0 = j.latest_completed_success_begin;
            let countable = j.failures.iter().filter(|(_, end)| end.map(|e| e > t0).unwrap_or(true)).count() as u32;
            if countable < threshold && j.violation.is_none() {
                j.violation = Some(("opened-early".into(), format!("the breaker went from closed to open although only {countable} record_failure call(s) can have taken effect after the latest completed record_success began (failure_threshold = {threshold})")));
            }
        }
        if now_state == CircuitState::Closed {
            j.episode_probes = 0;
        }
    }
    j.last_state = Some(now_state);
}
