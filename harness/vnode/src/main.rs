//! Checks for topology, cluster node, RESP server and client.

mod breaker;
mod topo;

use vlib::Check;

fn main() {
    let checks: Vec<&dyn Check> = vec![&topo::C24, &topo::C13, &topo::C14, &breaker::C26];
    vlib::main_entry(&checks)
}
