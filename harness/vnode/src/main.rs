//! Checks for topology, cluster node, RESP server and client.

mod breaker;
mod clusterchk;
mod multi;
mod nodeh;
mod parse;
mod replic;
mod resp;
mod subs;
mod topo;

use vlib::Check;

fn main() {
    let args: Vec<String> = std::env::args().collect();
    if args.len() >= 3 && args[1] == "--serve" {
        multi::serve(&args[2]);
    }
    let checks: Vec<&dyn Check> = vec![&topo::C24, &topo::C13, &topo::C14, &breaker::C26, &parse::C21, &clusterchk::C07, &clusterchk::C08, &replic::C12, &resp::C22, &subs::C09, &multi::C10, &multi::C11];
    vlib::main_entry(&checks)
}
