fn main(){}
