//! C10 / C11: a real cluster of node processes on loopback, driven over RESP, with process-level
//! faults; judged from the disks the nodes leave behind.
//!
//! `vnode --serve <json>` is the node process: the same start-up sequence as the `sierradb`
//! server binary (configuration -> buckets/partitions -> database -> ClusterActor -> RESP
//! server), plus hook H5 (dial the listed peers; the server itself has mDNS discovery only).

use std::collections::{BTreeMap, HashMap, HashSet};
use std::io::{BufRead, BufReader};
use std::path::{Path, PathBuf};
use std::process::{Child, Command, Stdio};
use std::sync::{Arc, Mutex};
use std::time::{Duration, Instant};

use kameo::actor::Spawn;
use libp2p::identity::Keypair;
use redis_protocol::resp3::types::BytesFrame;
use serde_json::{Value, json};
use sierradb::IterDirection;
use sierradb::database::{Database, DatabaseBuilder};
use sierradb_cluster::{ClusterActor, ClusterArgs};
use sierradb_server::config::AppConfig;
use sierradb_server::server::Server;
use tokio_util::sync::CancellationToken;
use uuid::Uuid;
use vlib::{CaseOut, Check, Env, Plan, Scratch, Tape, Tier};

use crate::nodeh::{block_on, hash_for, make_id, next_n};
use crate::resp::{Client, as_map, as_str, as_u64, is_err, s};
use crate::topo::app_config;

const PARTITIONS: u16 = 4;
const BUCKETS: u16 = 2;

fn node_config(dir: &Path, index: u32, count: u32, rf: u8, p2p_port: u16, client_port: u16) -> AppConfig {
    let mut c = app_config(count, index, BUCKETS, PARTITIONS, rf);
    c.dir = dir.to_path_buf();
    c.network.cluster_address = format!("/ip4/127.0.0.1/tcp/{p2p_port}").parse().unwrap();
    c.network.client_address = format!("127.0.0.1:{client_port}");
    c.heartbeat.interval_ms = 100;
    c.heartbeat.timeout_ms = 400;
    c.replication.buffer_size = 100;
    c.replication.buffer_timeout_ms = 2000;
    c.replication.catchup_timeout_ms = 500;
    c.segment.size_bytes = 1024 * 1024;
    c.segment.compression = false;
    c.sync.interval_ms = 1;
    c
}

fn builder_for(config: &AppConfig) -> DatabaseBuilder {
    let assigned_buckets = config.assigned_buckets().expect("assigned buckets");
    let mut builder = DatabaseBuilder::new();
    builder
        .segment_size_bytes(config.segment.size_bytes)
        .compression(config.segment.compression)
        .total_buckets(config.bucket.count)
        .bucket_ids(assigned_buckets.into_iter().collect::<Vec<_>>())
        .sync_interval(Duration::from_millis(config.sync.interval_ms))
        .sync_idle_interval(config.effective_idle_interval())
        .max_batch_size(config.sync.max_batch_size)
        .min_sync_bytes(config.sync.min_bytes)
        .cache_capacity_bytes(config.cache.capacity_bytes)
        .reader_threads(2)
        .writer_threads(1);
    builder
}

/// Node process entry: never returns.
pub fn serve(arg: &str) -> ! {
    unsafe {
        libc::prctl(libc::PR_SET_PDEATHSIG, libc::SIGKILL);
    }
    let v: Value = serde_json::from_str(arg).expect("serve argument");
    let dir = PathBuf::from(v["dir"].as_str().unwrap());
    let index = v["index"].as_u64().unwrap() as u32;
    let count = v["count"].as_u64().unwrap() as u32;
    let rf = v["rf"].as_u64().unwrap() as u8;
    let p2p_port = v["p2p_port"].as_u64().unwrap() as u16;
    let client_port = v["client_port"].as_u64().unwrap() as u16;
    let dial: Vec<String> = v["dial"].as_array().unwrap().iter().map(|p| format!("/ip4/127.0.0.1/tcp/{}", p.as_u64().unwrap())).collect();
    unsafe {
        std::env::set_var("SIERRA_VERIF_DIAL", dial.join(","));
    }
    let config = node_config(&dir, index, count, rf, p2p_port, client_port);
    let errs = config.validate().expect("validate");
    if !errs.is_empty() {
        eprintln!("config errors: {errs:?}");
        std::process::exit(3);
    }
    let rt = tokio::runtime::Builder::new_multi_thread().worker_threads(3).enable_all().build().unwrap();
    rt.block_on(async move {
        let assigned_buckets = config.assigned_buckets().unwrap();
        let assigned_partitions = config.assigned_partitions(&assigned_buckets);
        let node_count = config.node_count().unwrap();
        let database = builder_for(&config).open(&config.dir).expect("open database");
        let caches = database.reader_pool().caches().clone();
        let cluster_ref = ClusterActor::spawn(ClusterArgs {
            keypair: Keypair::generate_ed25519(),
            database: database.clone(),
            listen_addrs: vec![config.network.cluster_address.clone()],
            node_count,
            node_index: config.node.index as usize,
            bucket_count: config.bucket.count,
            partition_count: config.partition.count,
            replication_factor: config.replication.factor,
            assigned_partitions,
            heartbeat_timeout: Duration::from_millis(config.heartbeat.timeout_ms),
            heartbeat_interval: Duration::from_millis(config.heartbeat.interval_ms),
            replication_buffer_size: config.replication.buffer_size,
            replication_buffer_timeout: Duration::from_millis(config.replication.buffer_timeout_ms),
            replication_catchup_timeout: Duration::from_millis(config.replication.catchup_timeout_ms),
            mdns: false,
        });
        cluster_ref.wait_for_startup().await;
        let addr: std::net::SocketAddr = config.network.client_address.parse().unwrap();
        let srv = Server::new(cluster_ref, caches, config.partition.count, config.cache.capacity_bytes, config.append.strict_versioning, CancellationToken::new());
        tokio::spawn(async move {
            if let Err(e) = srv.listen(addr).await {
                eprintln!("server failed: {e}");
                std::process::exit(4);
            }
        });
        for _ in 0..500 {
            if tokio::net::TcpStream::connect(addr).await.is_ok() {
                break;
            }
            tokio::time::sleep(Duration::from_millis(10)).await;
        }
        println!("READY");
        loop {
            tokio::time::sleep(Duration::from_secs(3600)).await;
        }
    });
    std::process::exit(0)
}

// ------------------------------------------------------------------------------------------

struct NodeProc {
    child: Option<Child>,
    stopped: bool,
    p2p_port: u16,
    client_port: u16,
    dir: PathBuf,
    starts: u32,
}

struct Cluster {
    nodes: Vec<NodeProc>,
    count: u32,
    rf: u8,
}

/// Children die with the *thread* that spawned them (PR_SET_PDEATHSIG), so every node process
/// is spawned from one thread that lives as long as this process.
fn spawn_from_spawner_thread(cmd: Command) -> std::io::Result<Child> {
    type Job = (Command, std::sync::mpsc::Sender<std::io::Result<Child>>);
    static SPAWNER: std::sync::OnceLock<Mutex<std::sync::mpsc::Sender<Job>>> = std::sync::OnceLock::new();
    let tx = SPAWNER.get_or_init(|| {
        let (tx, rx) = std::sync::mpsc::channel::<Job>();
        std::thread::Builder::new()
            .name("node-spawner".into())
            .spawn(move || {
                while let Ok((mut cmd, reply)) = rx.recv() {
                    let _ = reply.send(cmd.spawn());
                }
            })
            .unwrap();
        Mutex::new(tx)
    });
    let (rtx, rrx) = std::sync::mpsc::channel();
    tx.lock().unwrap().send((cmd, rtx)).map_err(|_| std::io::Error::other("spawner thread gone"))?;
    rrx.recv().map_err(|_| std::io::Error::other("spawner thread gone"))?
}

fn free_port() -> u16 {
    let l = std::net::TcpListener::bind("127.0.0.1:0").unwrap();
    l.local_addr().unwrap().port()
}

impl Cluster {
    fn new(root: &Path, count: u32, rf: u8) -> Cluster {
        // Ports come from a range private to this worker process, outside the kernel's ephemeral
        // range: with ports taken from bind(:0), a port freed by a killed node can be handed to a
        // node of another worker's cluster while the first one is down - the restarted node then
        // fails to listen, its peers dial the foreign node, and two clusters merge (a write was
        // then "acknowledged by a quorum" that included a node of the other cluster: the one
        // alarm this check ever raised on the unchanged tree)
        static ROUND: std::sync::atomic::AtomicU32 = std::sync::atomic::AtomicU32::new(0);
        let round = ROUND.fetch_add(1, std::sync::atomic::Ordering::Relaxed);
        let base = 10_000u32 + (std::process::id() % 1000) * 20 + (round % 3) * 6;
        let mut ports: Vec<u16> = Vec::new();
        for k in 0..(2 * count) {
            let p = (base + k) as u16;
            // if something else holds the port the node will fail to start and the case is inconclusive
            ports.push(p);
        }
        let _ = free_port;
        let _: HashSet<u16> = HashSet::new();
        let nodes = (0..count as usize)
            .map(|i| {
                let dir = root.join(format!("node{i}"));
                std::fs::create_dir_all(&dir).unwrap();
                NodeProc { child: None, stopped: false, p2p_port: ports[2 * i], client_port: ports[2 * i + 1], dir, starts: 0 }
            })
            .collect();
        Cluster { nodes, count, rf }
    }

    /// Spawn node `i` and wait for its READY line (bounded).
    fn start(&mut self, i: usize) -> Result<(), String> {
        let dial: Vec<u16> = self.nodes.iter().enumerate().filter(|(j, _)| *j != i).map(|(_, n)| n.p2p_port).collect();
        let n = &mut self.nodes[i];
        let arg = json!({"dir": n.dir, "index": i, "count": self.count, "rf": self.rf, "p2p_port": n.p2p_port, "client_port": n.client_port, "dial": dial});
        let exe = std::env::current_exe().map_err(|e| e.to_string())?;
        let log = std::fs::OpenOptions::new().create(true).append(true).open(n.dir.join("stderr.log")).map_err(|e| e.to_string())?;
        let mut cmd = Command::new(exe);
        cmd.arg("--serve").arg(arg.to_string()).stdin(Stdio::null()).stdout(Stdio::piped()).stderr(log).env("RUST_LOG", "off");
        let mut child = spawn_from_spawner_thread(cmd).map_err(|e| e.to_string())?;
        let stdout = child.stdout.take().unwrap();
        let (tx, rx) = std::sync::mpsc::channel();
        std::thread::spawn(move || {
            let mut r = BufReader::new(stdout);
            let mut line = String::new();
            while r.read_line(&mut line).map(|k| k > 0).unwrap_or(false) {
                if line.trim() == "READY" {
                    let _ = tx.send(());
                }
                line.clear();
            }
        });
        n.child = Some(child);
        n.stopped = false;
        n.starts += 1;
        rx.recv_timeout(Duration::from_secs(20)).map_err(|_| format!("node {i} did not become ready within 20 s"))
    }

    fn signal(&mut self, i: usize, sig: i32) {
        if let Some(c) = &self.nodes[i].child {
            unsafe {
                libc::kill(c.id() as i32, sig);
            }
        }
    }

    fn kill(&mut self, i: usize) {
        if let Some(mut c) = self.nodes[i].child.take() {
            let _ = c.kill();
            let _ = c.wait();
        }
        self.nodes[i].stopped = false;
    }

    fn kill_all(&mut self) {
        for i in 0..self.nodes.len() {
            self.kill(i);
        }
    }
}

impl Drop for Cluster {
    fn drop(&mut self) {
        self.kill_all();
    }
}

#[derive(Clone, Debug)]
enum Op {
    /// write through `node` to key `k`; `events` > 1 = EMAPPEND; `wait` = await the reply before
    /// the next operation
    Write { node: usize, k: usize, events: usize, wait: bool },
    /// the same write sent through every node at once
    Race { k: usize },
    Pause { node: usize, ms: u64 },
    Kill { node: usize, down_ms: u64 },
    Sleep { ms: u64 },
}

#[derive(Clone, Debug)]
struct WriteRec {
    label: String,
    via: usize,
    partition: u16,
    ids: Vec<Uuid>,
    started_ms: u64,
    finished_ms: u64,
    /// Some((first sequence, last sequence)) when acknowledged
    acked: Option<(u64, u64)>,
    outcome: String,
}

#[derive(Clone, Debug)]
struct DiskEvent {
    event_id: Uuid,
    tx: Uuid,
    count: u8,
}

pub struct Multi {
    pub id: &'static str,
}

pub static C10: Multi = Multi { id: "C10" };
pub static C11: Multi = Multi { id: "C11" };

fn key_for(k: usize) -> (Uuid, u16) {
    // three keys on three different partitions
    let partition = (k as u16) % PARTITIONS;
    (make_id(hash_for(partition, 0), 0xC1A5_0000 + k as u64, 0x5EED), partition)
}

async fn do_write(port: u16, via: usize, k: usize, events: usize, label: String, salt: u64, t0: Instant) -> WriteRec {
    let (key, partition) = key_for(k);
    let hash = hash_for(partition, 0);
    let ids: Vec<Uuid> = (0..events).map(|_| make_id(hash, next_n(), salt)).collect();
    let started_ms = t0.elapsed().as_millis() as u64;
    let mut rec = WriteRec { label, via, partition, ids: ids.clone(), started_ms, finished_ms: 0, acked: None, outcome: String::new() };
    let args: Vec<Vec<u8>> = if events == 1 {
        vec![s("EAPPEND"), s(&format!("k{k}-s0")), s("E"), s("EVENT_ID"), s(&ids[0].to_string()), s("PARTITION_KEY"), s(&key.to_string()), s("PAYLOAD"), s("x")]
    } else {
        let mut a = vec![s("EMAPPEND"), s(&key.to_string())];
        for (j, id) in ids.iter().enumerate() {
            a.extend([s(&format!("k{k}-s{}", j % 2)), s("E"), s("EVENT_ID"), s(&id.to_string()), s("PAYLOAD"), s("x")]);
        }
        a
    };
    let res = async {
        let mut c = Client::connect(port).await.map_err(|e| format!("connect: {e}"))?;
        c.send(&args).await.map_err(|e| format!("send: {e}"))?;
        loop {
            match c.recv(Duration::from_secs(40)).await? {
                Some(BytesFrame::Push { .. }) => continue,
                Some(f) => return Ok::<BytesFrame, String>(f),
                None => return Err("connection closed".into()),
            }
        }
    }
    .await;
    rec.finished_ms = t0.elapsed().as_millis() as u64;
    match res {
        Err(e) => rec.outcome = format!("unknown ({e})"),
        Ok(f) => {
            if let Some(e) = is_err(&f) {
                rec.outcome = format!("rejected: {e}");
            } else if let Some(m) = as_map(&f) {
                let (first, last) = if events == 1 {
                    let x = m.get("partition_sequence").and_then(|f| as_u64(f));
                    (x, x)
                } else {
                    (m.get("first_partition_sequence").and_then(|f| as_u64(f)), m.get("last_partition_sequence").and_then(|f| as_u64(f)))
                };
                match (first, last) {
                    (Some(a), Some(b)) => {
                        rec.acked = Some((a, b));
                        rec.outcome = format!("OK {a}..={b}");
                        let _ = as_str;
                    }
                    _ => rec.outcome = format!("unparsed reply {f:?}"),
                }
            } else {
                rec.outcome = format!("unparsed reply {f:?}");
            }
        }
    }
    rec
}

fn dump_node(dir: &Path, index: u32, count: u32, rf: u8) -> Result<BTreeMap<u16, BTreeMap<u64, DiskEvent>>, String> {
    let config = node_config(dir, index, count, rf, 1, 1);
    let assigned_buckets = config.assigned_buckets().map_err(|e| e.to_string())?;
    let parts = config.assigned_partitions(&assigned_buckets);
    let db: Database = builder_for(&config).open(dir).map_err(|e| format!("open: {e}"))?;
    let mut out = BTreeMap::new();
    let res: Result<(), String> = block_on(async {
        for p in parts {
            let mut log = BTreeMap::new();
            let mut iter = db.read_partition(p, 0, IterDirection::Forward).await.map_err(|e| format!("read_partition: {e}"))?;
            while let Some(commits) = iter.next_batch(100).await.map_err(|e| format!("next_batch: {e}"))? {
                for commit in commits {
                    for ev in commit {
                        log.insert(ev.partition_sequence, DiskEvent { event_id: ev.event_id, tx: ev.transaction_id, count: ev.confirmation_count });
                    }
                }
            }
            out.insert(p, log);
        }
        db.shutdown().await;
        Ok(())
    });
    res.map(|_| out)
}

impl Check for Multi {
    fn id(&self) -> &'static str {
        self.id
    }
    fn level(&self) -> &'static str {
        "exploration"
    }
    fn rule(&self) -> String {
        "case = a cluster of 3 real node processes on loopback (the server's own start-up sequence; replication factor 3, or 2 = both replicas needed; 4 partitions, 2 buckets; heartbeat 100 ms / timeout 400 ms) formed through hook H5, one warm-up write per key, then 4-24 tape-ordered operations: single and multi-event appends with explicit event ids through a chosen node (awaited or left in flight), the same key written through all three nodes at once, SIGSTOP of a node for 0.2-3 s (missed heartbeats, divergent membership views, late replies), SIGKILL of a node with restart on the same directory after 0.1-2 s (memory lost, new peer id), sleeps. Afterwards every node is resumed/restarted, the cluster is left to settle, all processes are killed and every node's directory is opened offline and dumped as (partition, sequence) -> (transaction, event id, confirmation count). Oracle C10: no (partition, sequence) holds two different transactions with a confirmation count >= quorum on any two nodes. Oracle C11: every append acknowledged OK to a client is stored with its event ids at the reported sequences on at least quorum nodes, carries a count >= quorum on at least one node, and no node holds a different quorum-confirmed transaction there. Non-trivial: a fault (pause or kill) overlapped an in-flight write and a write was acknowledged after the first fault.".into()
    }
    fn assumptions(&self) -> Vec<String> {
        vec![
            "faults are process-level (pause, kill/restart, concurrent coordinators); individual messages are not dropped, duplicated or reordered by the harness".into(),
            "SIGKILL keeps everything the process wrote (page cache survives); the property's crash model is 'disks survive, memory is lost'".into(),
            "both oracles are invariants over the final disks, so timing cannot produce a false report; it only limits how exactly a failure replays".into(),
            "the coordinator of a write is not identifiable from the client side: 'carries a quorum count on the coordinator' is checked as 'on at least one node'".into(),
        ]
    }
    fn plan(&self, tier: Tier) -> Plan {
        let quick = tier == Tier::Quick;
        Plan { cases: if quick { 40 } else { 600 }, max_tape: 10, min_slots: 5, max_slots: 25, shard_cases: 4, shard_timeout_s: 600, max_shrink_iters: 6, parallel: 5, ..Plan::default() }
    }
    fn abort_is_violation(&self) -> bool {
        false
    }
    fn run_case(&self, t: &mut Tape, _env: &Env) -> CaseOut {
        let mut out = CaseOut::default();
        let salt = t.raw() as u64;
        let rf: u8 = if t.chance(1, 4) { 2 } else { 3 };
        let count = 3u32;
        let q = rf / 2 + 1;
        let mut ops = Vec::new();
        while t.next_slot() {
            let op = match t.weighted(&[8, 2, 3, 2, 2]) {
                0 => Op::Write { node: t.usize_below(3), k: t.usize_below(3), events: if t.chance(1, 4) { 2 + t.usize_below(2) } else { 1 }, wait: t.chance(1, 2) },
                1 => Op::Race { k: t.usize_below(3) },
                2 => Op::Pause { node: t.usize_below(3), ms: *t.pick(&[200u64, 450, 700, 1200, 3000]) },
                3 => Op::Kill { node: t.usize_below(3), down_ms: *t.pick(&[100u64, 500, 2000]) },
                _ => Op::Sleep { ms: *t.pick(&[50u64, 200, 600]) },
            };
            ops.push(op);
        }
        let scratch = Scratch::new("multi");
        let cluster = Arc::new(Mutex::new(Cluster::new(scratch.path(), count, rf)));
        let mut log: Vec<Value> = vec![json!({"nodes": count, "rf": rf, "quorum": q})];
        let mut inconclusive: Option<String> = None;
        // formation
        for i in 0..count as usize {
            if let Err(e) = cluster.lock().unwrap().start(i) {
                inconclusive = Some(e);
                break;
            }
        }
        let t0 = Instant::now();
        let mut writes: Vec<WriteRec> = Vec::new();
        let mut fault_windows: Vec<(u64, u64, &'static str)> = Vec::new();
        if inconclusive.is_none() {
            let ports: Vec<u16> = cluster.lock().unwrap().nodes.iter().map(|n| n.client_port).collect();
            block_on(async {
                // warm-up: one acknowledged write per key through node 0 (retries while the
                // membership forms)
                for k in 0..3 {
                    let mut ok = false;
                    let start = Instant::now();
                    while start.elapsed() < Duration::from_secs(15) {
                        let w = do_write(ports[0], 0, k, 1, format!("warmup k{k}"), salt, t0).await;
                        let acked = w.acked.is_some();
                        writes.push(w);
                        if acked {
                            ok = true;
                            break;
                        }
                        tokio::time::sleep(Duration::from_millis(150)).await;
                    }
                    if !ok {
                        inconclusive = Some(format!("the cluster did not accept a warm-up write for key {k} within 15 s: {}", writes.last().map(|w| w.outcome.clone()).unwrap_or_default()));
                        return;
                    }
                }
                let mut pending: Vec<tokio::task::JoinHandle<WriteRec>> = Vec::new();
                let mut timers: Vec<tokio::task::JoinHandle<Option<String>>> = Vec::new();
                for (oi, op) in ops.iter().enumerate() {
                    log.push(json!({"at_ms": t0.elapsed().as_millis() as u64, "op": format!("{op:?}")}));
                    match op {
                        Op::Write { node, k, events, wait } => {
                            let h = tokio::spawn(do_write(ports[*node], *node, *k, *events, format!("op{oi}"), salt, t0));
                            if *wait {
                                if let Ok(w) = h.await {
                                    writes.push(w);
                                }
                            } else {
                                pending.push(h);
                            }
                        }
                        Op::Race { k } => {
                            for node in 0..3 {
                                pending.push(tokio::spawn(do_write(ports[node], node, *k, 1, format!("op{oi}-race-n{node}"), salt, t0)));
                            }
                        }
                        Op::Pause { node, ms } => {
                            let mut c = cluster.lock().unwrap();
                            if c.nodes[*node].child.is_some() && !c.nodes[*node].stopped {
                                c.signal(*node, libc::SIGSTOP);
                                c.nodes[*node].stopped = true;
                                let now = t0.elapsed().as_millis() as u64;
                                fault_windows.push((now, now + ms, "pause"));
                                let (cl, node, ms) = (cluster.clone(), *node, *ms);
                                timers.push(tokio::spawn(async move {
                                    tokio::time::sleep(Duration::from_millis(ms)).await;
                                    let mut c = cl.lock().unwrap();
                                    if c.nodes[node].stopped {
                                        c.signal(node, libc::SIGCONT);
                                        c.nodes[node].stopped = false;
                                    }
                                    None
                                }));
                            }
                        }
                        Op::Kill { node, down_ms } => {
                            let mut c = cluster.lock().unwrap();
                            if c.nodes[*node].child.is_some() {
                                c.kill(*node);
                                let now = t0.elapsed().as_millis() as u64;
                                fault_windows.push((now, now + down_ms + 800, "kill"));
                                let (cl, node, ms) = (cluster.clone(), *node, *down_ms);
                                timers.push(tokio::spawn(async move {
                                    tokio::time::sleep(Duration::from_millis(ms)).await;
                                    tokio::task::spawn_blocking(move || cl.lock().unwrap().start(node).err()).await.ok().flatten()
                                }));
                            }
                        }
                        Op::Sleep { ms } => tokio::time::sleep(Duration::from_millis(*ms)).await,
                    }
                }
                for h in timers {
                    if let Ok(Some(e)) = h.await {
                        inconclusive = Some(e);
                    }
                }
                // everything is up again: let in-flight work finish
                tokio::time::sleep(Duration::from_millis(1500)).await;
                for h in pending {
                    if let Ok(w) = h.await {
                        writes.push(w);
                    }
                }
                tokio::time::sleep(Duration::from_millis(700)).await;
            });
        }
        cluster.lock().unwrap().kill_all();
        if let Some(why) = inconclusive {
            // the harness could not run the case (start-up or formation); never a violation
            out.class("harness-inconclusive");
            out.count("inconclusive_cases", 1);
            out.set_sample(json!({"inconclusive": why, "log": log}));
            return out;
        }
        let starts: Vec<u32> = cluster.lock().unwrap().nodes.iter().map(|n| n.starts).collect();
        // offline dumps
        let mut disks: Vec<BTreeMap<u16, BTreeMap<u64, DiskEvent>>> = Vec::new();
        for i in 0..count {
            let dir = cluster.lock().unwrap().nodes[i as usize].dir.clone();
            match dump_node(&dir, i, count, rf) {
                Ok(d) => disks.push(d),
                Err(e) => {
                    // a node whose directory no longer opens is C05/C06 territory; report as foreign
                    out.foreign.push(format!("C05/multi/node-directory-does-not-open: {e}"));
                    disks.push(BTreeMap::new());
                }
            }
        }
        let kinds: HashSet<&str> = fault_windows.iter().map(|w| w.2).collect();
        let fault_class = match (kinds.contains("kill"), kinds.contains("pause")) {
            (true, true) => "kill+pause",
            (true, false) => "kill",
            (false, true) => "pause",
            _ => "no-fault",
        };
        let mut fails: Vec<(&'static str, String, String)> = Vec::new();
        // C10
        let mut conflicts = 0;
        for p in 0..PARTITIONS {
            let mut seqs: HashSet<u64> = HashSet::new();
            for d in &disks {
                if let Some(l) = d.get(&p) {
                    seqs.extend(l.keys().copied());
                }
            }
            let mut seqs: Vec<u64> = seqs.into_iter().collect();
            seqs.sort();
            for sq in seqs {
                let mut confirmed: HashMap<Uuid, Vec<usize>> = HashMap::new();
                for (i, d) in disks.iter().enumerate() {
                    if let Some(e) = d.get(&p).and_then(|l| l.get(&sq)) {
                        if e.count >= q {
                            confirmed.entry(e.tx).or_default().push(i);
                        }
                    }
                }
                if confirmed.len() > 1 && conflicts == 0 {
                    conflicts += 1;
                    fails.push(("C10", format!("two-confirmed-at-one-sequence/{fault_class}"), format!("partition {p} sequence {sq}: transactions {:?} all carry a confirmation count >= {q} (tx -> nodes)", confirmed)));
                }
            }
        }
        // C11
        let mut c11_reported = HashSet::new();
        for w in &writes {
            let Some((first, last)) = w.acked else { continue };
            if (last - first + 1) as usize != w.ids.len() {
                fails.push(("C11", "acked-range-shape".into(), format!("{}: acknowledged range {first}..={last} for {} events", w.label, w.ids.len())));
                continue;
            }
            let mut holders = Vec::new();
            let mut quorum_counted = false;
            let mut replaced_by: Option<(usize, Uuid)> = None;
            for (i, d) in disks.iter().enumerate() {
                let Some(l) = d.get(&w.partition) else { continue };
                let all = w.ids.iter().enumerate().all(|(j, id)| l.get(&(first + j as u64)).map(|e| e.event_id == *id).unwrap_or(false));
                if all {
                    holders.push(i);
                    if w.ids.iter().enumerate().all(|(j, _)| l[&(first + j as u64)].count >= q) {
                        quorum_counted = true;
                    }
                } else if let Some(e) = l.get(&first) {
                    if e.event_id != w.ids[0] && e.count >= q {
                        replaced_by = Some((i, e.tx));
                    }
                }
            }
            // what every node holds around the acknowledged sequence (so that a report is self-contained)
            let per_node: Vec<String> = disks
                .iter()
                .enumerate()
                .map(|(i, d)| match d.get(&w.partition) {
                    None => format!("node {i}: partition not dumped (starts {})", starts[i]),
                    Some(l) => {
                        let at = l.get(&first).map(|e| format!("event {} tx {} count {}", e.event_id, e.tx, e.count)).unwrap_or_else(|| "nothing".into());
                        format!("node {i}: {} events, last sequence {:?}, at {first}: {at}, process starts {}", l.len(), l.keys().next_back(), starts[i])
                    }
                })
                .collect();
            let describe = || format!("write {} via node {} ({} events, ids {:?}, partition {}, sent at {} ms, acknowledged '{}' at {} ms; faults {:?}; {})", w.label, w.via, w.ids.len(), w.ids, w.partition, w.started_ms, w.outcome, w.finished_ms, fault_windows, per_node.join(" | "));
            if let Some((i, tx)) = replaced_by {
                if c11_reported.insert("replaced") {
                    fails.push(("C11", format!("acked-write-replaced/{fault_class}"), format!("{}: node {i} holds the different quorum-confirmed transaction {tx} at sequence {first}; holders of the acknowledged events: {holders:?}", describe())));
                }
            }
            if (holders.len() as u8) < q && c11_reported.insert("not-on-quorum") {
                fails.push(("C11", format!("acked-write-not-on-quorum/{fault_class}"), format!("{}: stored at its sequence on nodes {holders:?} only (quorum {q})", describe())));
            } else if !quorum_counted && (holders.len() as u8) >= q && c11_reported.insert("no-quorum-count") {
                fails.push(("C11", format!("acked-write-without-quorum-count/{fault_class}"), format!("{}: stored on nodes {holders:?} but no node records a confirmation count >= {q} for it", describe())));
            }
        }
        // classification
        let first_fault = fault_windows.iter().map(|w| w.0).min();
        let overlapped = writes.iter().any(|w| fault_windows.iter().any(|f| w.started_ms <= f.1 && w.finished_ms >= f.0));
        let acked_after = first_fault.map(|ff| writes.iter().any(|w| w.acked.is_some() && w.finished_ms > ff)).unwrap_or(false);
        out.nontrivial = overlapped && acked_after;
        out.class(&format!("rf={rf}"));
        out.class(&format!("faults={fault_class}"));
        if overlapped {
            out.class("fault-overlapped-a-write");
        }
        out.count("writes", writes.len() as u64);
        out.count("writes_acknowledged", writes.iter().filter(|w| w.acked.is_some()).count() as u64);
        out.count("writes_rejected", writes.iter().filter(|w| w.outcome.starts_with("rejected")).count() as u64);
        out.count("writes_unknown", writes.iter().filter(|w| w.outcome.starts_with("unknown")).count() as u64);
        let dump_summary: Vec<Value> = disks
            .iter()
            .enumerate()
            .map(|(i, d)| json!({"node": i, "partitions": d.iter().map(|(p, l)| json!({"p": p, "events": l.len(), "confirmed": l.values().filter(|e| e.count >= q).count()})).collect::<Vec<_>>()}))
            .collect();
        let mut sample = json!({"ops": log, "writes": writes.iter().map(|w| json!({"label": w.label, "via": w.via, "partition": w.partition, "events": w.ids.len(), "at_ms": [w.started_ms, w.finished_ms], "outcome": w.outcome})).collect::<Vec<_>>(), "disks": dump_summary});
        if !fails.is_empty() {
            // full dumps of the partitions involved make the report self-contained
            let full: Vec<Value> = disks
                .iter()
                .enumerate()
                .map(|(i, d)| json!({"node": i, "logs": d.iter().map(|(p, l)| json!({"p": p, "log": l.iter().map(|(s, e)| json!([s, e.tx.to_string(), e.event_id.to_string(), e.count])).collect::<Vec<_>>()})).collect::<Vec<_>>()}))
                .collect();
            sample["full_dumps"] = json!(full);
        }
        out.set_sample(sample);
        for (prop, sig, msg) in fails {
            if prop == self.id {
                out.fail(format!("{prop}/{sig}"), msg);
            } else {
                out.foreign.push(format!("{prop}/{sig}"));
            }
        }
        out
    }
}
