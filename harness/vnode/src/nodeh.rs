//! One in-process cluster node per worker process (kameo's swarm is process-global), with the
//! database swapped under it between cases through the repo's own `ResetCluster` message.

use std::collections::HashSet;
use std::path::Path;
use std::sync::OnceLock;
use std::sync::atomic::{AtomicU64, Ordering};
use std::time::Duration;

use kameo::actor::{ActorRef, RemoteActorRef, Spawn};
use libp2p::identity::Keypair;
use sierradb::StreamId;
use sierradb::database::{Database, DatabaseBuilder, ExpectedVersion, NewEvent, Transaction};
use sierradb::id::set_uuid_flag;
use sierradb_cluster::{ClusterActor, ClusterArgs, ResetCluster};
use smallvec::SmallVec;
use uuid::Uuid;
use vlib::Scratch;

pub const PARTITIONS: u16 = 4;
pub const BUCKETS: u16 = 2;

pub struct Node {
    pub cluster: ActorRef<ClusterActor>,
    pub remote: RemoteActorRef<ClusterActor>,
    pub rf: u8,
    /// replication buffer size the node was *started* with (ResetCluster installs 1000)
    pub initial_buffer: usize,
    _boot_dir: Scratch,
}

static RT: OnceLock<tokio::runtime::Runtime> = OnceLock::new();
static NODE: OnceLock<Node> = OnceLock::new();
static RESETS: AtomicU64 = AtomicU64::new(0);

pub fn rt() -> &'static tokio::runtime::Runtime {
    RT.get_or_init(|| tokio::runtime::Builder::new_multi_thread().worker_threads(6).enable_all().build().unwrap())
}

pub fn block_on<F: std::future::Future>(f: F) -> F::Output {
    rt().block_on(f)
}

pub fn open_db(dir: &Path) -> Database {
    let mut b = DatabaseBuilder::new();
    b.segment_size_bytes(128 * 1024)
        .total_buckets(BUCKETS)
        .bucket_ids_from_range(0..BUCKETS)
        .writer_threads(1)
        .reader_threads(2)
        .sync_interval(Duration::from_millis(0))
        .sync_idle_interval(Duration::from_millis(0))
        .cache_capacity_bytes(4 * 1024 * 1024)
        .compression(false);
    b.open(dir).expect("open database")
}

/// The node of this process. The first call fixes the replication factor and the initial
/// replication buffer; later calls return the same node.
pub fn node(rf: u8, initial_buffer: usize, buffer_timeout_ms: u64, catchup_timeout_ms: u64) -> &'static Node {
    NODE.get_or_init(|| {
        block_on(async move {
            let boot = Scratch::new("node-boot");
            let database = open_db(boot.path());
            let cluster = ClusterActor::spawn(ClusterArgs {
                keypair: Keypair::generate_ed25519(),
                database,
                listen_addrs: vec![],
                node_count: 1,
                node_index: 0,
                bucket_count: BUCKETS,
                partition_count: PARTITIONS,
                replication_factor: rf,
                assigned_partitions: HashSet::from_iter(0..PARTITIONS),
                heartbeat_timeout: Duration::from_millis(1_000),
                heartbeat_interval: Duration::from_millis(6_000),
                replication_buffer_size: initial_buffer,
                replication_buffer_timeout: Duration::from_millis(buffer_timeout_ms),
                replication_catchup_timeout: Duration::from_millis(catchup_timeout_ms),
                mdns: false,
            });
            cluster.wait_for_startup().await;
            let remote = cluster.clone().into_remote_ref().await;
            Node { cluster, remote, rf, initial_buffer, _boot_dir: boot }
        })
    })
}

impl Node {
    /// Swap the database under the node; the node recomputes its watermarks from the
    /// confirmation counts on disk.
    pub async fn reset(&self, database: Database) -> Result<(), String> {
        RESETS.fetch_add(1, Ordering::Relaxed);
        self.cluster.ask(ResetCluster { database }).await.map_err(|e| format!("{e}"))
    }
    pub fn resets() -> u64 {
        RESETS.load(Ordering::Relaxed)
    }
    pub fn quorum(&self) -> u8 {
        self.rf / 2 + 1
    }
}

/// id layout as documented: `[ts:48][rand:12][ver:4][var:2][hash:16][rand:46]`
pub fn make_id(hash: u16, n: u64, salt: u64) -> Uuid {
    let ts48: u128 = (0x0190_0000_0000u128 + (n as u128)) & 0xFFFF_FFFF_FFFF;
    let rand12: u128 = (salt & 0xFFF) as u128;
    let rand46: u128 = ((salt >> 12) ^ n.wrapping_mul(0x9E37_79B9_7F4A_7C15)) as u128 & ((1u128 << 46) - 1);
    let v: u128 = (ts48 << 80) | (rand12 << 68) | (0x7u128 << 64) | (0x2u128 << 62) | ((hash as u128) << 46) | rand46;
    Uuid::from_bytes(v.to_be_bytes())
}

/// hash with `hash % PARTITIONS == partition`
pub fn hash_for(partition: u16, k: u16) -> u16 {
    partition + PARTITIONS * (1 + (k % 1000))
}

static NEXT: AtomicU64 = AtomicU64::new(1);

pub fn next_n() -> u64 {
    NEXT.fetch_add(1, Ordering::Relaxed)
}

#[derive(Clone, Debug)]
pub struct TxSpec {
    pub partition: u16,
    pub key: Uuid,
    pub tx_id: Uuid,
    /// (event id, stream, payload len)
    pub events: Vec<(Uuid, String, usize)>,
    pub confirmation: u8,
    pub expected_seq: ExpectedVersion,
}

pub fn mk_tx(partition: u16, streams: &[String], confirmation: u8, salt: u64, expected_seq: ExpectedVersion) -> TxSpec {
    let hash = hash_for(partition, 0);
    let key = make_id(hash, 0xABCD_0000 + partition as u64, 0x5EED);
    let events: Vec<(Uuid, String, usize)> = streams.iter().enumerate().map(|(i, s)| (make_id(hash, next_n(), salt), s.clone(), 10 + (i * 7) % 50)).collect();
    let tx_id = set_uuid_flag(make_id(hash, 0x7000_0000_0000 + next_n(), salt), events.len() == 1);
    TxSpec { partition, key, tx_id, events, confirmation, expected_seq }
}

pub fn to_transaction(t: &TxSpec) -> Transaction {
    let events: SmallVec<[NewEvent; 4]> = t
        .events
        .iter()
        .map(|(id, s, len)| NewEvent { event_id: *id, stream_id: StreamId::new(s.clone()).unwrap(), stream_version: ExpectedVersion::Any, event_name: "E".into(), timestamp: 1_700_000_000_000_000_000, metadata: vec![], payload: vec![b'x'; *len] })
        .collect();
    Transaction::new(t.key, t.partition, events).unwrap().with_transaction_id(t.tx_id).with_confirmation_count(t.confirmation).expected_partition_sequence(t.expected_seq)
}
