//! C09: subscriptions deliver confirmed events in order, once, without gaps, within the window.

use std::collections::{HashMap, HashSet};
use std::sync::Arc;
use std::sync::atomic::{AtomicBool, AtomicU64, Ordering};
use std::time::Duration;

use futures::FutureExt;
use serde_json::{Value, json};
use sierradb::StreamId;
use sierradb::database::ExpectedVersion;
use sierradb_cluster::subscription::{FromSequences, FromVersions, Subscribe, SubscriptionEvent, SubscriptionMatcher};
use sierradb_cluster::write::confirm::ConfirmTransaction;
use sierradb_cluster::write::execute::ExecuteTransaction;
use sierradb_cluster::write::replicate::ReplicateWrite;
use tokio::sync::{Notify, mpsc, watch};
use uuid::Uuid;
use vlib::{CaseOut, Check, Env, Plan, Scratch, Tape, Tier};

use crate::clusterchk::rf_for;
use crate::nodeh::{Node, TxSpec, block_on, mk_tx, node, open_db, to_transaction};

pub struct C09;

#[derive(Clone, Debug)]
struct ME {
    seq: u64,
    id: Uuid,
    stream: String,
    key: Uuid,
    version: u64,
    tx: usize,
}

#[derive(Clone, Debug)]
struct MTx {
    spec: TxSpec,
    first_seq: u64,
    confirmed: bool,
}

#[derive(Default)]
struct PM {
    events: Vec<ME>,
    txs: Vec<MTx>,
}

impl PM {
    fn watermark(&self) -> u64 {
        let mut w = 0;
        for t in &self.txs {
            if t.confirmed {
                w = t.first_seq + t.spec.events.len() as u64;
            } else {
                break;
            }
        }
        w
    }
}

#[derive(Clone, Debug)]
enum Op {
    Confirm { p: u16, k: usize, skip: bool },
    Append { p: u16, events: usize, confirmed: bool },
    Ack { k: u64 },
    Recv { ms: u64 },
    GateConfirm { p: u16, k: usize },
    /// more confirmed events than the broadcast channel holds (1000), without receiving
    Burst { p: u16 },
}

#[derive(Clone, Debug)]
enum Sel {
    Partition(u16, Option<u64>),
    Partitions(Vec<u16>, Option<u64>),
    AllPartitions(Option<u64>),
    Stream(u16, u8, Option<u64>),
    Streams(Vec<(u16, u8)>, Option<u64>),
}

fn stream_name(p: u16, s: u8) -> String {
    format!("sub-p{p}-s{s}")
}

impl Check for C09 {
    fn id(&self) -> &'static str {
        "C09"
    }
    fn level(&self) -> &'static str {
        "exploration"
    }
    fn rule(&self) -> String {
        "case = per-partition histories (0-70 transactions of 1-3 events over 2 streams on 2 partitions) written directly with a confirmed prefix and an unconfirmed tail, handed to the real node (replication factor 1-5 per worker), then one subscription (single partition, several partitions, all partitions, single stream, several streams; start none='latest', 0, middle, at the watermark, beyond; window 1/2/5/50/1000) and 3-30 tape-ordered operations: confirm the next (or next-but-one) unconfirmed transactions through ConfirmTransaction, append new transactions (ExecuteTransaction on rf=1 workers; ReplicateWrite, confirmed or not, otherwise), acknowledge cursors, receive, a burst of 1050 confirmed events without receiving (more than the broadcast channel holds, so a window-blocked subscription lags and must re-read history), and - through hook H3, an async gate after each history batch - confirm transactions while a history read is between two batches. Oracle on the delivered sequence: cursors increase by one from 0; per partition (or per stream) positions increase by exactly one from the start position (no gap, no duplicate, no reordering); every delivered event lies in the prefix the harness itself has confirmed so far; delivered minus acknowledged never exceeds the window; with an explicit start position, after the last operation every confirmed matching event is delivered (the case waits for exactly the owed deliveries, up to 20 s / 120 s after a burst). Non-trivial: a history read was held at the gate while the watermark advanced, or acknowledgements throttled delivery (window smaller than the deliverable events), or a burst overflowed the broadcast channel.".into()
    }
    fn assumptions(&self) -> Vec<String> {
        vec![
            "the node's watermark can never exceed what the harness itself confirmed (single node, no other writers), so 'confirmed' is judged against the harness's own prefix without access to node internals".into(),
            "a 'latest' subscription's start position is the confirmed length of the partition/stream at subscription time; deliveries below it are reported under their own signature".into(),
            "eventual delivery is checked as: all owed deliveries arrive within 20 s (120 s after a burst) of the last operation".into(),
        ]
    }
    fn plan(&self, tier: Tier) -> Plan {
        let quick = tier == Tier::Quick;
        Plan { cases: if quick { 1200 } else { 12000 }, max_tape: 24, min_slots: 4, max_slots: 31, shard_cases: 10, shard_timeout_s: if quick { 600 } else { 1800 }, max_shrink_iters: 80, ..Plan::default() }
    }
    fn abort_is_violation(&self) -> bool {
        true
    }
    fn run_case(&self, t: &mut Tape, env: &Env) -> CaseOut {
        let mut out = CaseOut::default();
        let n: &'static Node = node(rf_for(env), 1000, 8000, 2000);
        let rf = n.rf;
        out.hint = Some(rf as u64);
        let q = n.quorum();
        let salt = t.raw() as u64;
        // histories
        let mut parts: HashMap<u16, PM> = HashMap::new();
        let mut initial: Vec<TxSpec> = Vec::new();
        for p in 0..2u16 {
            let n_tx = match t.weighted(&[3, 3, 2]) {
                0 => t.usize_below(6),
                1 => 6 + t.usize_below(20),
                _ => 50 + t.usize_below(21), // more than one history batch (50 commits)
            };
            let confirmed = if n_tx == 0 { 0 } else { t.usize_below(n_tx + 1) };
            let pm = parts.entry(p).or_default();
            let mut seq = 0u64;
            let mut versions: HashMap<String, u64> = HashMap::new();
            for i in 0..n_tx {
                let k = 1 + (vlib::mix(salt ^ ((p as u64) << 32), i as u64) % 3) as usize;
                // long histories concentrate on one stream so stream history needs several batches
                let streams: Vec<String> = (0..k).map(|j| stream_name(p, if n_tx >= 50 { 0 } else { ((i + j) % 2) as u8 })).collect();
                let c = if i < confirmed { q } else { q - 1 };
                let spec = mk_tx(p, &streams, c, salt, ExpectedVersion::Any);
                for (id, s, _) in &spec.events {
                    let v = versions.entry(s.clone()).or_insert(0);
                    pm.events.push(ME { seq, id: *id, stream: s.clone(), key: spec.key, version: *v, tx: pm.txs.len() });
                    *v += 1;
                    seq += 1;
                }
                pm.txs.push(MTx { first_seq: seq - spec.events.len() as u64, spec: spec.clone(), confirmed: i < confirmed });
                initial.push(spec);
            }
        }
        // subscription
        let wm0: HashMap<u16, u64> = (0..2u16).map(|p| (p, parts[&p].watermark())).collect();
        let from_kind = t.below(6);
        let start = |w: u64| -> Option<u64> {
            match from_kind {
                0 => None,
                1 => Some(0),
                2 => Some(w / 2),
                3 => Some(w),
                4 => Some(w.saturating_sub(1)),
                _ => Some(w + 3),
            }
        };
        let sel = match t.weighted(&[3, 2, 2, 3, 2]) {
            0 => {
                let p = t.below(2) as u16;
                Sel::Partition(p, start(wm0[&p]))
            }
            1 => Sel::Partitions(vec![0, 1], start(wm0[&0].min(wm0[&1]))),
            2 => Sel::AllPartitions(start(wm0[&0].min(wm0[&1]))),
            3 => {
                let p = t.below(2) as u16;
                let vis = parts[&p].events.iter().filter(|e| e.stream == stream_name(p, 0) && e.seq < wm0[&p]).count() as u64;
                Sel::Stream(p, 0, start(vis))
            }
            _ => Sel::Streams(vec![(0, 0), (1, 0), (0, 1)], start(2)),
        };
        let window = *t.pick(&[1000u64, 1, 2, 5, 50]);
        let gate_at = 1 + t.below(3);
        let mut ops = Vec::new();
        while t.next_slot() {
            let op = match t.weighted(&[10, 6, 8, 6, 4, if rf > 1 { 1 } else { 0 }]) {
                0 => Op::Confirm { p: t.below(2) as u16, k: 1 + t.usize_below(4), skip: t.chance(1, 5) },
                1 => Op::Append { p: t.below(2) as u16, events: 1 + t.usize_below(3), confirmed: !t.chance(1, 3) },
                2 => Op::Ack { k: 1 + t.below(8) },
                3 => Op::Recv { ms: *t.pick(&[5u64, 30, 100]) },
                4 => Op::GateConfirm { p: t.below(2) as u16, k: 1 + t.usize_below(60) },
                _ => Op::Burst { p: t.below(2) as u16 },
            };
            ops.push(op);
        }

        let scratch = Scratch::new("c09");
        let panics_before = vlib::peek_panics().len();
        let mut fail: Option<(String, String)> = None;
        let mut soft: Option<(String, String)> = None;
        let mut log: Vec<Value> = vec![json!({"rf": rf, "partitions": (0..2u16).map(|p| json!({"p": p, "txs": parts[&p].txs.len(), "confirmed_events": wm0[&p], "events": parts[&p].events.len()})).collect::<Vec<_>>(), "subscription": format!("{sel:?}"), "window": window, "gate_at_batch": gate_at})];
        let gate_used = Arc::new(AtomicBool::new(false));
        let mut throttled = false;
        let mut burst_done = false;
        block_on(async {
            let db = open_db(scratch.path());
            for spec in &initial {
                if let Err(e) = db.append_events(to_transaction(spec)).await {
                    fail = Some(("setup/direct-write".into(), format!("{e}")));
                    return;
                }
            }
            if let Err(e) = n.reset(db.clone()).await {
                fail = Some(("setup/reset".into(), e));
                return;
            }
            // gate: the `gate_at`-th history batch waits until released
            let hits = Arc::new(AtomicU64::new(0));
            let released = Arc::new(AtomicBool::new(false));
            let release = Arc::new(Notify::new());
            let (hit_tx, mut hit_rx) = mpsc::unbounded_channel::<()>();
            {
                let (hits, released, release, hit_tx) = (hits.clone(), released.clone(), release.clone(), hit_tx.clone());
                sierradb_cluster::verif::set_gate(Some(Arc::new(move |_point: &'static str| {
                    let (hits, released, release, hit_tx) = (hits.clone(), released.clone(), release.clone(), hit_tx.clone());
                    async move {
                        let k = hits.fetch_add(1, Ordering::SeqCst) + 1;
                        if std::env::var_os("VERIF_DEBUG").is_some() {
                            eprintln!("[gate] hit {k} at {_point} released={}", released.load(Ordering::SeqCst));
                        }
                        if k == gate_at && !released.load(Ordering::SeqCst) {
                            let _ = hit_tx.send(());
                            // wait (bounded) for the harness to advance the watermark
                            let _ = tokio::time::timeout(Duration::from_millis(1500), release.notified()).await;
                        }
                    }
                    .boxed()
                })));
            }
            // subscribe
            let key_of = |p: u16| parts[&p].txs.first().map(|t| t.spec.key).unwrap_or_else(|| mk_tx(p, &["x".to_string()], 0, 0, ExpectedVersion::Any).key);
            let matcher = match &sel {
                Sel::Partition(p, f) => SubscriptionMatcher::Partition { partition_id: *p, from_sequence: *f },
                Sel::Partitions(ps, f) => SubscriptionMatcher::Partitions { partition_ids: ps.iter().copied().collect(), from_sequences: f.map(FromSequences::AllPartitions).unwrap_or(FromSequences::Latest) },
                Sel::AllPartitions(f) => SubscriptionMatcher::AllPartitions { from_sequences: f.map(FromSequences::AllPartitions).unwrap_or(FromSequences::Latest) },
                Sel::Stream(p, s, f) => SubscriptionMatcher::Stream { partition_key: key_of(*p), stream_id: StreamId::new(stream_name(*p, *s)).unwrap(), from_version: *f },
                Sel::Streams(v, f) => SubscriptionMatcher::Streams { stream_ids: v.iter().map(|(p, s)| (key_of(*p), StreamId::new(stream_name(*p, *s)).unwrap())).collect(), from_versions: f.map(FromVersions::AllStreams).unwrap_or(FromVersions::Latest) },
            };
            let is_stream_sub = matches!(sel, Sel::Stream(..) | Sel::Streams(..));
            let explicit_from: Option<u64> = match &sel {
                Sel::Partition(_, f) | Sel::Partitions(_, f) | Sel::AllPartitions(f) | Sel::Stream(_, _, f) | Sel::Streams(_, f) => *f,
            };
            // keys this subscription covers: partition id or (partition, stream)
            let covered_parts: HashSet<u16> = match &sel {
                Sel::Partition(p, _) => HashSet::from([*p]),
                Sel::Partitions(ps, _) => ps.iter().copied().collect(),
                Sel::AllPartitions(_) => (0..4).collect(),
                _ => HashSet::new(),
            };
            let covered_streams: HashSet<String> = match &sel {
                Sel::Stream(p, s, _) => HashSet::from([stream_name(*p, *s)]),
                Sel::Streams(v, _) => v.iter().map(|(p, s)| stream_name(*p, *s)).collect(),
                _ => HashSet::new(),
            };
            // start position of a 'latest' subscription: what is confirmed at subscription time
            let mut latest_floor: HashMap<String, u64> = HashMap::new();
            for p in 0..2u16 {
                latest_floor.insert(format!("p{p}"), wm0[&p]);
                for s in 0..2u8 {
                    let name = stream_name(p, s);
                    let vis = parts[&p].events.iter().filter(|e| e.stream == name && e.seq < wm0[&p]).count() as u64;
                    latest_floor.insert(name, vis);
                }
            }
            let (ack_tx, ack_rx) = watch::channel(None);
            let (update_tx, mut update_rx) = mpsc::unbounded_channel();
            let sub_id = Uuid::from_u128(0xC09 << 64 | salt as u128);
            if let Err(e) = n.cluster.ask(Subscribe { subscription_id: sub_id, matcher, last_ack_rx: ack_rx, update_tx, window_size: window }).await {
                fail = Some(("setup/subscribe".into(), format!("{e}")));
                return;
            }

            let mut next_cursor = 0u64;
            let mut bursts = 0u32;
            let mut acked: Option<u64> = None;
            let mut next_pos: HashMap<String, u64> = HashMap::new();
            let mut delivered: HashMap<String, Vec<u64>> = HashMap::new();
            let mut by_id: HashMap<Uuid, (u16, ME)> = HashMap::new();
            for p in 0..2u16 {
                for e in &parts[&p].events {
                    by_id.insert(e.id, (p, e.clone()));
                }
            }

            // processes everything currently queued (optionally waiting `ms` for the first)
            macro_rules! drain {
                ($ms:expr) => {{
                    let mut waited = false;
                    loop {
                        let ev = if !waited && $ms > 0 {
                            waited = true;
                            match tokio::time::timeout(Duration::from_millis($ms), update_rx.recv()).await {
                                Ok(x) => x,
                                Err(_) => None,
                            }
                        } else {
                            update_rx.try_recv().ok()
                        };
                        let Some(ev) = ev else { break };
                        match ev {
                            SubscriptionEvent::Record { cursor, record, .. } => {
                                if std::env::var_os("VERIF_DEBUG").is_some() {
                                    eprintln!("[recv] cursor {cursor} p{} seq {} {} v{}", record.partition_id, record.partition_sequence, record.stream_id, record.stream_version);
                                }
                                if cursor != next_cursor {
                                    fail = Some(("cursor-not-consecutive".into(), format!("delivery carries cursor {cursor}, expected {next_cursor}")));
                                    break;
                                }
                                next_cursor += 1;
                                let outstanding = next_cursor - acked.map(|a| a + 1).unwrap_or(0);
                                if outstanding > window {
                                    fail = Some(("window-exceeded".into(), format!("{outstanding} deliveries are unacknowledged (cursor {cursor}, last ack {acked:?}) with a window of {window}")));
                                    break;
                                }
                                let Some((p, me)) = by_id.get(&record.event_id).cloned() else {
                                    fail = Some(("unknown-event".into(), format!("delivered event {} was never written", record.event_id)));
                                    break;
                                };
                                let wm_now = parts[&p].watermark();
                                if me.seq >= wm_now {
                                    fail = Some(("delivered-unconfirmed".into(), format!("event at partition {p} sequence {} was delivered although only sequences below {wm_now} have been confirmed", me.seq)));
                                    break;
                                }
                                let (key, pos) = if is_stream_sub { (me.stream.clone(), me.version) } else { (format!("p{p}"), me.seq) };
                                let matches = if is_stream_sub { covered_streams.contains(&me.stream) } else { covered_parts.contains(&p) };
                                if !matches {
                                    fail = Some(("foreign-event".into(), format!("delivered event of {key} which the subscription does not select")));
                                    break;
                                }
                                let expected = match next_pos.get(&key) {
                                    Some(x) => Some(*x),
                                    None => explicit_from,
                                };
                                match expected {
                                    Some(x) if pos != x => {
                                        let kind = if pos < x { if delivered.get(&key).map(|d| d.contains(&pos)).unwrap_or(false) { "duplicate" } else { "before-start-or-reordered" } } else { "gap" };
                                        fail = Some((format!("order/{kind}"), format!("{key}: delivered position {pos}, expected {x} (start {explicit_from:?}; delivered so far {:?})", delivered.get(&key).map(|d| if d.len() > 12 { d[d.len() - 12..].to_vec() } else { d.clone() }))));
                                        break;
                                    }
                                    None => {
                                        // 'latest': must not reach back before the subscription
                                        let floor = latest_floor.get(&key).copied().unwrap_or(0);
                                        if pos < floor && soft.is_none() {
                                            // recorded, but the rest of the delivery is still judged
                                            soft = Some(("latest/receives-backlog".into(), format!("{key}: a subscription without start position ('latest', created when {floor} events were confirmed) was delivered position {pos}")));
                                        }
                                    }
                                    _ => {}
                                }
                                next_pos.insert(key.clone(), pos + 1);
                                delivered.entry(key).or_default().push(pos);
                            }
                            SubscriptionEvent::Error { error, .. } => {
                                fail = Some(("subscription-error".into(), format!("{error}")));
                                break;
                            }
                            SubscriptionEvent::Closed { .. } => {
                                fail = Some(("subscription-closed".into(), "the subscription closed by itself".into()));
                                break;
                            }
                        }
                    }
                }};
            }

            macro_rules! confirm_tx {
                ($p:expr, $idx:expr) => {{
                    let pm = parts.get_mut(&$p).unwrap();
                    let tx = pm.txs[$idx].clone();
                    let msg = ConfirmTransaction { partition_id: $p, transaction_id: tx.spec.tx_id, event_ids: tx.spec.events.iter().map(|e| e.0).collect(), confirmation_versions: (0..tx.spec.events.len() as u64).map(|i| tx.first_seq + i + 1).collect(), confirmation_count: q };
                    // mark confirmed *before* sending: the oracle's prefix is an upper bound
                    pm.txs[$idx].confirmed = true;
                    if let Err(e) = n.cluster.ask(msg).await {
                        fail = Some(("setup/confirm-transaction".into(), format!("{e}")));
                    }
                }};
            }

            for op in &ops {
                if fail.is_some() {
                    break;
                }
                log.push(json!(format!("{op:?}")));
                if std::env::var_os("VERIF_DEBUG").is_some() {
                    eprintln!("[op] {op:?}");
                }
                match op {
                    Op::Confirm { p, k, skip } => {
                        for j in 0..*k {
                            let pm = &parts[p];
                            let Some(first) = pm.txs.iter().position(|t| !t.confirmed) else { break };
                            let idx = if *skip && j == 0 && first + 1 < pm.txs.len() && !pm.txs[first + 1].confirmed { first + 1 } else { first };
                            confirm_tx!(*p, idx);
                        }
                        drain!(0u64);
                    }
                    Op::GateConfirm { p, k } => {
                        // only meaningful while a history read is parked at the gate
                        if tokio::time::timeout(Duration::from_millis(150), hit_rx.recv()).await.is_ok() {
                            for _ in 0..*k {
                                let Some(first) = parts[p].txs.iter().position(|t| !t.confirmed) else { break };
                                confirm_tx!(*p, first);
                                gate_used.store(true, Ordering::SeqCst);
                            }
                            released.store(true, Ordering::SeqCst);
                            release.notify_waiters();
                            release.notify_one();
                        }
                        drain!(20u64);
                    }
                    Op::Append { p, events, confirmed } => {
                        let pm = parts.get_mut(p).unwrap();
                        let next_seq = pm.events.len() as u64;
                        let streams: Vec<String> = (0..*events).map(|j| stream_name(*p, (j % 2) as u8)).collect();
                        let all_confirmed = pm.txs.iter().all(|t| t.confirmed);
                        let conf = if rf == 1 { true } else { *confirmed };
                        let spec = mk_tx(*p, &streams, if conf { q } else { q - 1 }, salt, if rf == 1 { ExpectedVersion::Any } else { ExpectedVersion::from_next_version(next_seq) });
                        let mut versions: HashMap<String, u64> = HashMap::new();
                        for e in &pm.events {
                            *versions.entry(e.stream.clone()).or_insert(0) += 1;
                        }
                        let first_seq = next_seq;
                        for (i, (id, s, _)) in spec.events.iter().enumerate() {
                            let v = versions.entry(s.clone()).or_insert(0);
                            let me = ME { seq: first_seq + i as u64, id: *id, stream: s.clone(), key: spec.key, version: *v, tx: pm.txs.len() };
                            *v += 1;
                            by_id.insert(*id, (*p, me.clone()));
                            pm.events.push(me);
                        }
                        // on rf = 1 the coordinator path confirms by itself, but only contiguously
                        pm.txs.push(MTx { spec: spec.clone(), first_seq, confirmed: conf });
                        let _ = all_confirmed;
                        let res = if rf == 1 {
                            n.cluster.ask(ExecuteTransaction::new(to_transaction(&spec))).await.map(|_| ()).map_err(|e| format!("{e}"))
                        } else {
                            n.cluster.ask(ReplicateWrite { coordinator_ref: n.remote.clone(), coordinator_alive_since: u64::MAX, transaction: to_transaction(&spec) }).await.map(|_| ()).map_err(|e| format!("{e}"))
                        };
                        if let Err(e) = res {
                            fail = Some(("setup/append".into(), e));
                        }
                        drain!(0u64);
                    }
                    Op::Burst { p } => {
                        if bursts >= 1 {
                            continue;
                        }
                        bursts += 1;
                        burst_done = true;
                        while let Some(first) = parts[p].txs.iter().position(|t| !t.confirmed) {
                            confirm_tx!(*p, first);
                        }
                        for _ in 0..350 {
                            if fail.is_some() {
                                break;
                            }
                            let pm = parts.get_mut(p).unwrap();
                            let first_seq = pm.events.len() as u64;
                            let streams: Vec<String> = (0..3).map(|j| stream_name(*p, (j % 2) as u8)).collect();
                            let spec = mk_tx(*p, &streams, q, salt, ExpectedVersion::from_next_version(first_seq));
                            let mut versions: HashMap<String, u64> = HashMap::new();
                            for e in &pm.events {
                                *versions.entry(e.stream.clone()).or_insert(0) += 1;
                            }
                            for (i, (id, s, _)) in spec.events.iter().enumerate() {
                                let v = versions.entry(s.clone()).or_insert(0);
                                let me = ME { seq: first_seq + i as u64, id: *id, stream: s.clone(), key: spec.key, version: *v, tx: pm.txs.len() };
                                *v += 1;
                                by_id.insert(*id, (*p, me.clone()));
                                pm.events.push(me);
                            }
                            pm.txs.push(MTx { spec: spec.clone(), first_seq, confirmed: true });
                            if let Err(e) = n.cluster.ask(ReplicateWrite { coordinator_ref: n.remote.clone(), coordinator_alive_since: u64::MAX, transaction: to_transaction(&spec) }).await {
                                fail = Some(("setup/append".into(), format!("{e}")));
                            }
                        }
                    }
                    Op::Ack { k } => {
                        drain!(0u64);
                        if next_cursor > 0 {
                            let target = acked.map(|a| a + k).unwrap_or(k - 1).min(next_cursor - 1);
                            if acked.map(|a| target > a).unwrap_or(true) {
                                acked = Some(target);
                                let _ = ack_tx.send(Some(target));
                            }
                        }
                        drain!(5u64);
                    }
                    Op::Recv { ms } => {
                        drain!(*ms);
                    }
                }
            }
            // release a parked history read, then run to quiescence: acknowledge everything
            released.store(true, Ordering::SeqCst);
            release.notify_waiters();
            release.notify_one();
            let mut idle = 0;
            let t0 = tokio::time::Instant::now();
            // with an explicit start position the number of deliveries owed is known: wait for
            // them (the case ends as soon as they are in, the deadline only matters on failure
            // and is generous so that a loaded machine cannot turn into a report)
            let owed: Option<usize> = explicit_from.map(|from| {
                let mut n = 0usize;
                for p in 0..2u16 {
                    let pm = &parts[&p];
                    let w = pm.watermark();
                    if !is_stream_sub && covered_parts.contains(&p) {
                        n += w.saturating_sub(from) as usize;
                    }
                    if is_stream_sub {
                        n += pm.events.iter().filter(|e| covered_streams.contains(&e.stream) && e.seq < w && e.version >= from).count();
                    }
                }
                n
            });
            let deadline = Duration::from_secs(if bursts > 0 { 120 } else { 20 });
            loop {
                if fail.is_some() || t0.elapsed() >= deadline {
                    break;
                }
                match owed {
                    Some(n) => {
                        // a few extra rounds after the last owed delivery catch duplicates
                        if next_cursor as usize >= n && idle >= 3 {
                            break;
                        }
                    }
                    None => {
                        if idle >= 6 {
                            break;
                        }
                    }
                }
                let before = next_cursor;
                drain!(50u64);
                if next_cursor > 0 && acked.map(|a| a + 1 < next_cursor).unwrap_or(true) {
                    if window < 1000 && next_cursor - acked.map(|a| a + 1).unwrap_or(0) == window {
                        throttled = true;
                    }
                    acked = Some(next_cursor - 1);
                    let _ = ack_tx.send(acked);
                }
                if next_cursor == before {
                    idle += 1;
                } else {
                    idle = 0;
                }
            }
            // completeness for explicit start positions
            if fail.is_none() {
                if let Some(from) = explicit_from {
                    for p in 0..2u16 {
                        let pm = &parts[&p];
                        let w = pm.watermark();
                        if !is_stream_sub && covered_parts.contains(&p) {
                            let want: Vec<u64> = (from..w).collect();
                            let got = delivered.get(&format!("p{p}")).cloned().unwrap_or_default();
                            if got != want {
                                fail = Some(("missing-after-quiescence".into(), format!("partition {p}: sequences {from}..{w} are confirmed, the subscription (start {from}) was delivered {} of them (last {:?}) within the settle deadline (20 s, 120 s after a burst) after the last operation", got.len(), got.last())));
                                break;
                            }
                        }
                        if is_stream_sub {
                            for s in 0..2u8 {
                                let name = stream_name(p, s);
                                if !covered_streams.contains(&name) {
                                    continue;
                                }
                                let want: Vec<u64> = pm.events.iter().filter(|e| e.stream == name && e.seq < w && e.version >= from).map(|e| e.version).collect();
                                let got = delivered.get(&name).cloned().unwrap_or_default();
                                if got != want {
                                    fail = Some(("missing-after-quiescence".into(), format!("stream {name}: versions {:?}..={:?} are confirmed, the subscription (start {from}) was delivered {} of {} (last {:?}) within the settle deadline (20 s, 120 s after a burst) after the last operation; deliveries in total {next_cursor}, acknowledged {acked:?}, per key {:?}", want.first(), want.last(), got.len(), want.len(), got.last(), delivered.iter().map(|(k, v)| (k.clone(), v.len())).collect::<std::collections::BTreeMap<_, _>>())));
                                    break;
                                }
                            }
                        }
                    }
                }
            }
            sierradb_cluster::verif::set_gate(None);
            drop(ack_tx);
        });
        sierradb_cluster::verif::set_gate(None);
        out.class(&format!("rf={rf}"));
        out.class(match sel {
            Sel::Partition(..) => "partition",
            Sel::Partitions(..) => "partitions",
            Sel::AllPartitions(..) => "all-partitions",
            Sel::Stream(..) => "stream",
            Sel::Streams(..) => "streams",
        });
        if gate_used.load(Ordering::SeqCst) {
            out.class("watermark-advanced-mid-history");
        }
        if burst_done {
            out.class("burst-over-broadcast-capacity");
        }
        if throttled {
            out.class("throttled-by-window");
        }
        out.nontrivial = gate_used.load(Ordering::SeqCst) || throttled || burst_done;
        // a panic inside the node (the subscription task dies silently) is the more precise report
        if let Some(p) = vlib::last_panic_since(panics_before).filter(|p| p.location.contains("sierradb-cluster")) {
            let sig = format!("C09/panic/{}", vlib::panic_shape(&p));
            let msg = format!("the node panicked at {}: {}{}", p.location, p.message, fail.as_ref().map(|(s, m)| format!(" (then: {s}: {m})")).unwrap_or_default());
            fail = None;
            out.fail(sig, msg);
        }
        if let Some((sig, msg)) = fail {
            out.fail(format!("C09/{sig}"), msg);
        }
        if let Some((sig, msg)) = soft {
            out.fail(format!("C09/{sig}"), msg);
        }
        out.set_sample(json!({"history_and_ops": log}));
        out
    }
}
