//! C07 (reads expose only the confirmed prefix) and C08 (watermark soundness / monotonicity /
//! restart) against the real cluster node and confirmation manager.

use std::collections::{BTreeMap, HashMap, HashSet};

use serde_json::{Value, json};
use sierradb::StreamId;
use sierradb::database::ExpectedVersion;
use sierradb_cluster::confirmation::{BucketConfirmationManager, PartitionConfirmationState};
use sierradb_cluster::read::{GetPartitionSequence, GetStreamVersion, ReadEvent, ReadPartition, ReadStream};
use uuid::Uuid;
use vlib::{CaseOut, Check, Env, Plan, Scratch, Tape, Tier};

use crate::nodeh::{BUCKETS, Node, PARTITIONS, TxSpec, block_on, mk_tx, node, open_db, to_transaction};

pub fn rf_for(env: &Env) -> u8 {
    env.hint.map(|h| h as u8).unwrap_or([3u8, 2, 5, 1, 3, 4][(env.shard % 6) as usize])
}

#[derive(Clone, Debug)]
pub struct MEv {
    pub seq: u64,
    pub id: Uuid,
    pub stream: String,
    pub version: u64,
    pub count: u8,
    pub tx: usize,
}

#[derive(Default, Clone)]
pub struct PartModel {
    pub events: Vec<MEv>,
}

impl PartModel {
    pub fn watermark(&self, quorum: u8) -> u64 {
        self.events.iter().position(|e| e.count < quorum).unwrap_or(self.events.len()) as u64
    }
}

/// Write a generated partition history directly into a fresh database, with arbitrary
/// confirmation counts per transaction.
pub async fn write_history(db: &sierradb::database::Database, txs: &[TxSpec]) -> Result<HashMap<u16, PartModel>, String> {
    let mut parts: HashMap<u16, PartModel> = HashMap::new();
    let mut versions: HashMap<(u16, String), u64> = HashMap::new();
    for (ti, t) in txs.iter().enumerate() {
        let r = db.append_events(to_transaction(t)).await.map_err(|e| format!("direct write failed: {e}"))?;
        let pm = parts.entry(t.partition).or_default();
        for (i, (id, s, _)) in t.events.iter().enumerate() {
            let v = versions.entry((t.partition, s.clone())).or_insert(0);
            pm.events.push(MEv { seq: r.first_partition_sequence + i as u64, id: *id, stream: s.clone(), version: *v, count: t.confirmation, tx: ti });
            *v += 1;
        }
    }
    Ok(parts)
}

fn gen_counts(t: &mut Tape, rf: u8) -> u8 {
    let q = rf / 2 + 1;
    match t.weighted(&[10, 3, 3, 1, 1]) {
        0 => q,
        1 => rf,
        2 => q - 1,
        3 => 0,
        _ => (q + 1).min(12),
    }
}

pub fn gen_history(t: &mut Tape, rf: u8, max_tx: usize) -> Vec<TxSpec> {
    let salt = t.raw() as u64;
    let n = t.usize_below(max_tx + 1);
    let mut txs = Vec::new();
    for _ in 0..n {
        let p = t.below(2) as u16 * 2 + t.below(2) as u16 % PARTITIONS; // partitions 0..=3, clustered on 0 and 2
        let k = match t.weighted(&[5, 2, 1, 1]) {
            0 => 1,
            1 => 2,
            2 => 3,
            _ => 4,
        };
        let streams: Vec<String> = (0..k).map(|_| format!("p{p}-s{}", t.below(3))).collect();
        let c = gen_counts(t, rf);
        txs.push(mk_tx(p, &streams, c, salt, ExpectedVersion::Any));
    }
    txs
}

pub struct C07;

#[derive(Clone, Debug)]
enum Q {
    Event { pick: u32 },
    Partition { p: u16, start: u8, end: u8, count: u64 },
    Stream { p: u16, s: u8, start: u8, end: u8, count: u64 },
    StreamVersion { p: u16, s: u8 },
    PartitionSeq { p: u16 },
}

fn pos_from(kind: u8, w: u64, len: u64, t_extra: u64) -> u64 {
    match kind % 7 {
        0 => 0,
        1 => w.saturating_sub(1),
        2 => w,
        3 => w + 1,
        4 => len.saturating_sub(1),
        5 => len + 1,
        _ => t_extra % (len + 2),
    }
}

impl Check for C07 {
    fn id(&self) -> &'static str {
        "C07"
    }
    fn level(&self) -> &'static str {
        "exploration"
    }
    fn rule(&self) -> String {
        "case = a partition history (0-40 transactions of 1-4 events over 3 streams per partition, 4 partitions) written directly into a fresh database with per-transaction confirmation counts drawn around the quorum (q, rf, q-1, 0, q+1), so the watermark lands before, inside and after multi-event transactions and unconfirmed events sit exactly at and after it; the in-process cluster node (replication factor 1/2/3/4/5 fixed per worker process) is pointed at that database with ResetCluster and recomputes its watermarks from the on-disk counts. Then 3-30 generated queries: ReadEvent for any id, ReadPartition and ReadStream with start/end at 0, watermark-1, watermark, watermark+1, last, beyond, random and counts 1/2/5/100, GetStreamVersion, GetPartitionSequence; plus lookups of the three events around every watermark. Oracle (non-exposure, exactly the statement): every returned event has sequence < model watermark (longest prefix whose events carry >= quorum), GetStreamVersion only reveals a version whose event lies below the watermark, GetPartitionSequence < watermark. Non-trivial: an unconfirmed event sits at sequence == watermark of a partition and a query covered that sequence.".into()
    }
    fn assumptions(&self) -> Vec<String> {
        vec![
            "single in-process node (node_count = 1) whose replication factor is above 1: quorum = rf/2+1 is what the node itself uses for reads".into(),
            "completeness of answers (missing visible events, has_more) is not judged here (C22 does); the number of queries that returned events is reported so a vacuous pass is visible".into(),
        ]
    }
    fn plan(&self, tier: Tier) -> Plan {
        let quick = tier == Tier::Quick;
        Plan { cases: if quick { 1600 } else { 16_000 }, max_tape: 260, min_slots: 4, max_slots: 31, shard_cases: 10, shard_timeout_s: if quick { 300 } else { 900 }, max_shrink_iters: 150, ..Plan::default() }
    }
    fn abort_is_violation(&self) -> bool {
        true
    }
    fn run_case(&self, t: &mut Tape, env: &Env) -> CaseOut {
        let mut out = CaseOut::default();
        let want_rf = rf_for(env);
        let n: &Node = node(want_rf, 1000, 8000, 2000);
        let rf = n.rf;
        out.hint = Some(rf as u64);
        let q = n.quorum();
        let txs = gen_history(t, rf, 40);
        let mut queries = Vec::new();
        while t.next_slot() {
            let qy = match t.weighted(&[3, 5, 5, 2, 2]) {
                0 => Q::Event { pick: t.raw() },
                1 => Q::Partition { p: t.below(PARTITIONS as u64) as u16, start: t.below(7) as u8, end: t.below(8) as u8, count: *t.pick(&[100u64, 1, 2, 5]) },
                2 => Q::Stream { p: t.below(PARTITIONS as u64) as u16, s: t.below(3) as u8, start: t.below(7) as u8, end: t.below(8) as u8, count: *t.pick(&[100u64, 1, 2, 5]) },
                3 => Q::StreamVersion { p: t.below(PARTITIONS as u64) as u16, s: t.below(3) as u8 },
                _ => Q::PartitionSeq { p: t.below(PARTITIONS as u64) as u16 },
            };
            queries.push(qy);
        }
        let scratch = Scratch::new("c07");
        let mut fail: Option<(String, String)> = None;
        let mut covered_boundary = false;
        let mut returned_events = 0u64;
        let mut qlog = Vec::new();
        let mut wm_log = Vec::new();
        block_on(async {
            let db = open_db(scratch.path());
            let parts = match write_history(&db, &txs).await {
                Ok(p) => p,
                Err(e) => {
                    fail = Some(("setup/direct-write".into(), e));
                    return;
                }
            };
            if let Err(e) = n.reset(db.clone()).await {
                fail = Some(("setup/reset".into(), e));
                return;
            }
            let wm: HashMap<u16, u64> = (0..PARTITIONS).map(|p| (p, parts.get(&p).map(|m| m.watermark(q)).unwrap_or(0))).collect();
            for p in 0..PARTITIONS {
                let len = parts.get(&p).map(|m| m.events.len()).unwrap_or(0);
                wm_log.push(json!({"partition": p, "events": len, "watermark": wm[&p]}));
            }
            let all: Vec<MEv> = parts.values().flat_map(|m| m.events.iter().cloned()).collect();
            let by_id: HashMap<Uuid, (u16, MEv)> = parts.iter().flat_map(|(p, m)| m.events.iter().map(move |e| (e.id, (*p, e.clone())))).collect();
            let boundary_unconfirmed: HashSet<u16> = (0..PARTITIONS).filter(|p| parts.get(p).map(|m| (wm[p] as usize) < m.events.len()).unwrap_or(false)).collect();

            // generated queries + lookups around every watermark
            let mut qs = queries.clone();
            for p in 0..PARTITIONS {
                if let Some(m) = parts.get(&p) {
                    for d in [-1i64, 0, 1] {
                        let i = wm[&p] as i64 + d;
                        if i >= 0 && (i as usize) < m.events.len() {
                            let idx = all.iter().position(|e| e.id == m.events[i as usize].id).unwrap();
                            qs.push(Q::Event { pick: idx as u32 | 0x8000_0000 });
                        }
                    }
                }
            }
            for qy in &qs {
                match qy {
                    Q::Event { pick } => {
                        if all.is_empty() {
                            continue;
                        }
                        let e = if pick & 0x8000_0000 != 0 { &all[(*pick & 0x7fff_ffff) as usize % all.len()] } else { &all[(((*pick as u64) * all.len() as u64) >> 32) as usize] };
                        let (p, _) = &by_id[&e.id];
                        qlog.push(json!({"read_event": {"partition": p, "seq": e.seq, "count": e.count}}));
                        if e.seq == wm[p] {
                            covered_boundary = true;
                        }
                        match n.cluster.ask(ReadEvent::new(e.id)).await {
                            Ok(Some(r)) => {
                                returned_events += 1;
                                if r.partition_sequence >= wm[p] {
                                    fail = Some(("event-lookup/returns-unconfirmed".into(), format!("ReadEvent returned the event at partition {p} sequence {} (confirmation count {}) although the confirmed watermark of that partition is {} (rf {rf}, quorum {q})", r.partition_sequence, e.count, wm[p])));
                                    return;
                                }
                            }
                            Ok(None) => {}
                            Err(err) => {
                                qlog.push(json!({"error": format!("{err}")}));
                            }
                        }
                    }
                    Q::Partition { p, start, end, count } => {
                        let len = parts.get(p).map(|m| m.events.len() as u64).unwrap_or(0);
                        let w = wm[p];
                        let s = pos_from(*start, w, len, *count * 7 + *end as u64);
                        let e = if *end == 7 { None } else { Some(pos_from(*end, w, len, *count * 13 + *start as u64)) };
                        qlog.push(json!({"read_partition": {"partition": p, "start": s, "end": e, "count": count, "watermark": w}}));
                        if s <= w && e.map(|e| e >= w).unwrap_or(true) && boundary_unconfirmed.contains(p) {
                            covered_boundary = true;
                        }
                        match n.cluster.ask(ReadPartition { partition_id: *p, start_sequence: s, end_sequence: e, count: *count }).await {
                            Ok(r) => {
                                returned_events += r.events.len() as u64;
                                if let Some(bad) = r.events.iter().find(|ev| ev.partition_sequence >= w) {
                                    let c = by_id.get(&bad.event_id).map(|x| x.1.count);
                                    fail = Some(("partition-scan/returns-unconfirmed".into(), format!("ReadPartition(partition {p}, start {s}, end {e:?}, count {count}) returned sequence {} (confirmation count {c:?}) although the confirmed watermark is {w} (rf {rf}, quorum {q}); returned sequences {:?}", bad.partition_sequence, r.events.iter().map(|e| e.partition_sequence).collect::<Vec<_>>())));
                                    return;
                                }
                            }
                            Err(err) => qlog.push(json!({"error": format!("{err}")})),
                        }
                    }
                    Q::Stream { p, s, start, end, count } => {
                        let sid = format!("p{p}-s{s}");
                        let evs: Vec<&MEv> = parts.get(p).map(|m| m.events.iter().filter(|e| e.stream == sid).collect()).unwrap_or_default();
                        let w = wm[p];
                        let visible = evs.iter().filter(|e| e.seq < w).count() as u64;
                        let sv = pos_from(*start, visible, evs.len() as u64, *count * 7);
                        let ev = if *end == 7 { None } else { Some(pos_from(*end, visible, evs.len() as u64, *count * 13)) };
                        qlog.push(json!({"read_stream": {"partition": p, "stream": sid, "start": sv, "end": ev, "count": count, "visible_versions": visible, "stored": evs.len()}}));
                        if (visible as usize) < evs.len() && sv <= visible && ev.map(|e| e >= visible).unwrap_or(true) && evs[visible as usize].seq == w {
                            covered_boundary = true;
                        }
                        match n.cluster.ask(ReadStream { partition_id: *p, stream_id: StreamId::new(sid.clone()).unwrap(), start_version: sv, end_version: ev, count: *count }).await {
                            Ok(r) => {
                                returned_events += r.events.len() as u64;
                                if let Some(bad) = r.events.iter().find(|x| x.partition_sequence >= w) {
                                    let c = by_id.get(&bad.event_id).map(|x| x.1.count);
                                    fail = Some(("stream-scan/returns-unconfirmed".into(), format!("ReadStream({sid:?}, start {sv}, end {ev:?}, count {count}) returned version {} at partition sequence {} (confirmation count {c:?}) although the confirmed watermark of partition {p} is {w} (rf {rf}, quorum {q})", bad.stream_version, bad.partition_sequence)));
                                    return;
                                }
                            }
                            Err(err) => qlog.push(json!({"error": format!("{err}")})),
                        }
                    }
                    Q::StreamVersion { p, s } => {
                        let sid = format!("p{p}-s{s}");
                        let w = wm[p];
                        let max_visible = parts.get(p).and_then(|m| m.events.iter().filter(|e| e.stream == sid && e.seq < w).map(|e| e.version).max());
                        qlog.push(json!({"get_stream_version": {"partition": p, "stream": sid, "max_visible": max_visible}}));
                        match n.cluster.ask(GetStreamVersion { partition_id: *p, stream_id: StreamId::new(sid.clone()).unwrap() }).await {
                            Ok(Some(v)) => {
                                returned_events += 1;
                                if max_visible.map(|m| v > m).unwrap_or(true) {
                                    fail = Some(("stream-version/reveals-unconfirmed".into(), format!("GetStreamVersion({sid:?}) = {v}, but the highest version of that stream below the confirmed watermark {w} of partition {p} is {max_visible:?}")));
                                    return;
                                }
                            }
                            Ok(None) => {}
                            Err(err) => qlog.push(json!({"error": format!("{err}")})),
                        }
                    }
                    Q::PartitionSeq { p } => {
                        let w = wm[p];
                        qlog.push(json!({"get_partition_sequence": {"partition": p, "watermark": w}}));
                        match n.cluster.ask(GetPartitionSequence { partition_id: *p }).await {
                            Ok(Some(x)) => {
                                if x >= w {
                                    fail = Some(("partition-sequence/reveals-unconfirmed".into(), format!("GetPartitionSequence({p}) = {x}, but only sequences below {w} are confirmed")));
                                    return;
                                }
                            }
                            Ok(None) => {}
                            Err(err) => qlog.push(json!({"error": format!("{err}")})),
                        }
                    }
                }
            }
            let _ = boundary_unconfirmed;
        });
        out.count("events_returned_by_queries", returned_events);
        out.count("queries", qlog.len() as u64);
        out.class(&format!("rf={rf}"));
        out.nontrivial = covered_boundary;
        if let Some((sig, msg)) = fail {
            out.fail(format!("C07/{sig}"), msg);
        }
        out.set_sample(json!({"rf": rf, "history": txs.iter().map(|t| json!({"partition": t.partition, "events": t.events.iter().map(|e| e.1.clone()).collect::<Vec<_>>(), "count": t.confirmation})).collect::<Vec<_>>(), "partitions": wm_log, "queries": qlog}));
        out
    }
}

// ------------------------------------------------------------------------------------------
// C08

pub struct C08;

impl C08 {
    fn pure_case(&self, t: &mut Tape, out: &mut CaseOut) {
        let rf = 1 + t.below(7) as u8;
        let q = rf / 2 + 1;
        // transactions with their event versions (1-based, contiguous) and final counts
        let mut txs: Vec<(Vec<u64>, u8)> = Vec::new();
        let mut next = 1u64;
        let mut deliveries: Vec<(usize, u8)> = Vec::new();
        while t.next_slot() {
            let k = 1 + t.usize_below(4);
            let vs: Vec<u64> = (0..k as u64).map(|i| next + i).collect();
            next += k as u64;
            let final_c = match t.weighted(&[6, 2, 2]) {
                0 => q + t.below((rf - q + 1) as u64) as u8,
                1 => q.saturating_sub(1),
                _ => t.below(rf as u64 + 1) as u8,
            };
            let ti = txs.len();
            txs.push((vs, final_c));
            // reports: some increasing counts up to final, duplicates, and stale lower ones
            let n_rep = 1 + t.usize_below(4);
            for r in 0..n_rep {
                let c = if r == 0 { final_c } else { t.below(final_c as u64 + 1) as u8 };
                deliveries.push((ti, c));
            }
        }
        // delivery order: a tape-driven permutation (decisions read from the last slot onwards are
        // zeros when the tape is exhausted = original order)
        let mut order: Vec<usize> = (0..deliveries.len()).collect();
        for i in (1..order.len()).rev() {
            let j = t.usize_below(i + 1);
            order.swap(i, j);
        }
        let mut st = PartitionConfirmationState::new(0);
        let mut max_reported: BTreeMap<u64, u8> = BTreeMap::new();
        let mut last_w = 0u64;
        let mut log = Vec::new();
        let mut stale_above = false;
        for oi in &order {
            let (ti, c) = deliveries[*oi];
            for v in &txs[ti].0 {
                if max_reported.get(v).map(|m| c < *m).unwrap_or(false) && *v > st.confirmed_watermark.get() {
                    stale_above = true;
                }
                let e = max_reported.entry(*v).or_insert(0);
                *e = (*e).max(c);
                st.update_confirmation(*v, c, rf);
            }
            log.push(json!({"versions": txs[ti].0, "count": c}));
            let w = st.confirmed_watermark.get();
            if w < last_w {
                out.fail("C08/watermark/decreased", format!("watermark went from {last_w} to {w}"));
                break;
            }
            last_w = w;
            let sound = (1..).take_while(|v| max_reported.get(v).map(|c| *c >= q).unwrap_or(false)).count() as u64;
            if w > sound {
                out.fail("C08/watermark/exceeds-confirmed-prefix", format!("watermark {w} exceeds the longest prefix whose reported counts reach quorum ({sound}); rf {rf}"));
                break;
            }
        }
        if out.failures.is_empty() {
            // every final count has been delivered (the r == 0 report of each tx): the watermark
            // must equal the confirmed prefix whatever the order
            let w = st.confirmed_watermark.get();
            let want = (1..).take_while(|v| max_reported.get(v).map(|c| *c >= q).unwrap_or(false)).count() as u64;
            if w != want {
                out.fail("C08/watermark/stuck-below-confirmed-prefix", format!("after all confirmations were delivered the watermark is {w}, but versions 1..={want} all have a reported count >= quorum {q} (rf {rf})"));
            }
        }
        out.class("pure");
        out.nontrivial = stale_above;
        out.set_sample(json!({"kind": "pure", "rf": rf, "transactions": txs.iter().map(|(v, c)| json!({"versions": v, "final": c})).collect::<Vec<_>>(), "delivery": log}));
    }

    fn crash_case(&self, t: &mut Tape, out: &mut CaseOut) {
        out.class("persist-crash");
        let rf = *t.pick(&[3u8, 1, 2, 5]);
        let q = rf / 2 + 1;
        let salt = t.raw() as u64;
        let n1 = 1 + t.usize_below(6);
        let n2 = 1 + t.usize_below(6);
        let cut = t.raw();
        let state_kind = t.below(6);
        // (drawn last so that older replays keep their meaning) position of a transaction that is
        // still below the quorum when the first snapshot is persisted - the snapshot then holds
        // open versions above its watermark - and gets its quorum count afterwards
        let gap_at = t.usize_below(n1 + 1); // 0 = none
        let scratch = Scratch::new("c08");
        let dir = scratch.path().to_path_buf();
        let mut fail: Option<(String, String)> = None;
        let mut sample = json!({});
        block_on(async {
            let db = open_db(&dir);
            let mk = |k: usize, c: u8| mk_tx(0, &(0..k).map(|i| format!("s{i}")).collect::<Vec<_>>(), c, salt, ExpectedVersion::Any);
            // phase 1: confirmed events, persisted
            let mut all = Vec::new();
            for i in 0..n1 {
                all.push(mk(1 + i % 3, if gap_at == i + 1 && q > 0 { q - 1 } else { q }));
            }
            let parts1 = match write_history(&db, &all).await {
                Ok(p) => p,
                Err(e) => {
                    fail = Some(("setup".into(), e));
                    return;
                }
            };
            let mut m = BucketConfirmationManager::new(dir.clone(), BUCKETS, rf, HashSet::from_iter(0..PARTITIONS));
            if let Err(e) = m.initialize(&db).await {
                fail = Some(("initialize".into(), format!("{e}")));
                return;
            }
            let _ = m.persist_bucket_state(0).await;
            let w0 = m.get_watermark(0).map(|w| w.get()).unwrap_or(0);
            let cdir = dir.join("buckets").join("00000").join("confirmation");
            let old_current = std::fs::read(cdir.join("bucket_state.current.dat")).unwrap_or_default();
            // phase 2: more confirmed events, watermark advances in memory, second persist
            let mut more = Vec::new();
            for i in 0..n2 {
                more.push(mk(1 + (i + 1) % 3, q));
            }
            let parts2 = match write_history(&db, &more).await {
                Ok(p) => p,
                Err(e) => {
                    fail = Some(("setup".into(), e));
                    return;
                }
            };
            for e in &parts2[&0].events {
                let _ = m.update_confirmation(0, e.seq + 1, e.count).await;
            }
            // the transaction left below the quorum now reaches it: first on disk (what
            // ConfirmTransaction / the coordinator do), then reported to the manager
            if gap_at > 0 {
                let spec = &all[gap_at - 1];
                let first_id = spec.events[0].0;
                let offsets: Option<smallvec::SmallVec<[u64; 4]>> = match db.read_transaction(0, first_id).await {
                    Ok(Some(sierradb::bucket::segment::CommittedEvents::Single(ev))) => Some(smallvec::smallvec![ev.offset]),
                    Ok(Some(sierradb::bucket::segment::CommittedEvents::Transaction { events, commit })) => Some(events.iter().map(|e| e.offset).chain(std::iter::once(commit.offset)).collect()),
                    _ => None,
                };
                let Some(offsets) = offsets else {
                    fail = Some(("setup".into(), "transaction to confirm not found".into()));
                    return;
                };
                if let Err(e) = db.set_confirmations(0, offsets, spec.tx_id, q).await {
                    fail = Some(("setup".into(), format!("set_confirmations: {e}")));
                    return;
                }
                for e in parts1[&0].events.iter().filter(|e| spec.events.iter().any(|(id, _, _)| *id == e.id)) {
                    let _ = m.update_confirmation(0, e.seq + 1, q).await;
                }
            }
            let w1 = m.get_watermark(0).map(|w| w.get()).unwrap_or(0);
            let _ = m.persist_bucket_state(0).await;
            let new_current = std::fs::read(cdir.join("bucket_state.current.dat")).unwrap_or_default();
            drop(m);
            // crash states of the second persist (temp write / remove previous / rename / rename)
            let _ = std::fs::remove_file(cdir.join("bucket_state.current.dat"));
            let _ = std::fs::remove_file(cdir.join("bucket_state.previous.dat"));
            let _ = std::fs::remove_file(cdir.join("bucket_state.temp.dat"));
            let torn = &new_current[..(cut as usize % new_current.len().max(1))];
            let desc = match state_kind {
                0 => {
                    std::fs::write(cdir.join("bucket_state.current.dat"), &old_current).unwrap();
                    std::fs::write(cdir.join("bucket_state.temp.dat"), torn).unwrap();
                    "temp file torn, current = old"
                }
                1 => {
                    std::fs::write(cdir.join("bucket_state.current.dat"), &old_current).unwrap();
                    std::fs::write(cdir.join("bucket_state.temp.dat"), &new_current).unwrap();
                    "temp complete, current = old (previous already removed)"
                }
                2 => {
                    std::fs::write(cdir.join("bucket_state.previous.dat"), &old_current).unwrap();
                    std::fs::write(cdir.join("bucket_state.temp.dat"), &new_current).unwrap();
                    "between the renames: previous = old, temp complete, no current"
                }
                3 => {
                    std::fs::write(cdir.join("bucket_state.previous.dat"), &old_current).unwrap();
                    std::fs::write(cdir.join("bucket_state.current.dat"), &new_current).unwrap();
                    "complete"
                }
                4 => {
                    std::fs::write(cdir.join("bucket_state.current.dat"), torn).unwrap();
                    std::fs::write(cdir.join("bucket_state.previous.dat"), &old_current).unwrap();
                    "current unreadable (torn), previous = old"
                }
                _ => "no state files at all",
            };
            let mut m2 = BucketConfirmationManager::new(dir.clone(), BUCKETS, rf, HashSet::from_iter(0..PARTITIONS));
            if let Err(e) = m2.initialize(&db).await {
                fail = Some(("restart/initialize-failed".into(), format!("initialize after a crash state '{desc}' failed: {e}")));
                return;
            }
            let w2 = m2.get_watermark(0).map(|w| w.get()).unwrap_or(0);
            sample = json!({"kind": "persist-crash", "rf": rf, "state": desc, "transaction_below_quorum_at_first_snapshot": gap_at, "watermark_before_second_persist": w0, "watermark_before_crash": w1, "watermark_after_restart": w2});
            if w2 < w1 {
                fail = Some(("restart/watermark-went-back".into(), format!("watermark was {w1} before the crash ({desc}) and is {w2} after re-initialisation from the on-disk counts")));
            }
            db.shutdown().await;
        });
        out.nontrivial = matches!(state_kind, 0 | 2 | 4);
        if gap_at > 0 {
            out.class("snapshot-with-open-versions");
        }
        if let Some((sig, msg)) = fail {
            out.fail(format!("C08/{sig}"), msg);
        }
        out.set_sample(sample);
    }
}

impl Check for C08 {
    fn id(&self) -> &'static str {
        "C08"
    }
    fn level(&self) -> &'static str {
        "exploration"
    }
    fn rule(&self) -> String {
        "two case kinds. pure: PartitionConfirmationState::update_confirmation is fed a generated multiset of reports for 1-30 transactions (1-4 versions each, any replication factor 1-7): each transaction's final count plus duplicates and stale lower counts, delivered in a tape-chosen permutation; after every report the watermark must not decrease and must not exceed the longest prefix whose maximum reported count reaches quorum, and once everything is delivered it must equal that prefix. persist-crash: on real files, BucketConfirmationManager persists, more quorum-confirmed events are written (counts on disk) and reported, it persists again; every intermediate disk state of that second persist (torn temp file, temp complete, between the two renames, complete, torn current with previous, no files) is constructed and a new manager is initialised against the database: its watermark must be at least the watermark before the crash. Non-trivial: a stale lower count arrived for a version above the watermark / a crash state other than 'complete'.".into()
    }
    fn assumptions(&self) -> Vec<String> {
        vec!["confirmation counts reach the disk before they are reported to the confirmation manager (the protocol calls set_confirmations first), so the restart can re-derive the watermark from them".into()]
    }
    fn plan(&self, tier: Tier) -> Plan {
        let quick = tier == Tier::Quick;
        Plan { cases: if quick { 90_000 } else { 900_000 }, max_tape: 12, min_slots: 2, max_slots: 31, shard_cases: if quick { 1900 } else { 7000 }, max_shrink_iters: 1500, ..Plan::default() }
    }
    fn abort_is_violation(&self) -> bool {
        true
    }
    fn run_case(&self, t: &mut Tape, _env: &Env) -> CaseOut {
        let mut out = CaseOut::default();
        if t.chance(1, 25) {
            self.crash_case(t, &mut out);
        } else {
            self.pure_case(t, &mut out);
        }
        out
    }
}

pub fn _unused(_: Value) {}
