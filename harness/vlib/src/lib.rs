//! Verification engine shared by all checks: choice tape, seeded PBT driver (proptest
//! `TestRunner` owns randomness and shrinking), sharded worker processes, replay files,
//! evidence files and the known-findings policy.

pub mod engine;
pub mod tape;

pub use engine::*;
pub use tape::{Tape, expand_bytes, fnv1a, mix};
