//! The choice tape: every generator is a pure function of a `Tape`.
//!
//! A tape is a sequence of `u32` choices. `below(n)` maps a choice *monotonically*
//! onto `0..n` (`(c * n) >> 32`), so that shrinking a raw choice towards 0 always
//! yields a simpler value and never jumps around the way `%` would. Reading past the
//! end yields 0, the simplest choice. Alternatives are always listed simplest-first.

#[derive(Clone, Debug)]
pub struct Tape {
    slots: Vec<Vec<u32>>,
    cur: usize,
    pos: usize,
}

impl Tape {
    /// A flat tape (one slot).
    pub fn new(data: Vec<u32>) -> Self {
        Tape { slots: vec![data], cur: 0, pos: 0 }
    }

    /// A slotted tape: slot 0 is the header, every further slot describes one operation.
    /// Shrinking removes whole slots (operations) or simplifies values inside a slot, so the
    /// meaning of the remaining operations is preserved.
    pub fn new_slots(slots: Vec<Vec<u32>>) -> Self {
        let slots = if slots.is_empty() { vec![Vec::new()] } else { slots };
        Tape { slots, cur: 0, pos: 0 }
    }

    pub fn from_bytes(bytes: &[u8]) -> Self {
        let data = bytes
            .chunks(4)
            .map(|c| {
                let mut b = [0u8; 4];
                b[..c.len()].copy_from_slice(c);
                u32::from_le_bytes(b)
            })
            .collect();
        Tape::new(data)
    }

    pub fn slots(&self) -> &Vec<Vec<u32>> {
        &self.slots
    }

    pub fn len(&self) -> usize {
        self.slots.iter().map(|s| s.len()).sum()
    }

    /// Move to the next slot. Returns false when there is none (further reads yield 0).
    pub fn next_slot(&mut self) -> bool {
        self.cur += 1;
        self.pos = 0;
        self.cur < self.slots.len()
    }

    pub fn slots_left(&self) -> usize {
        self.slots.len().saturating_sub(self.cur + 1)
    }

    #[inline]
    pub fn raw(&mut self) -> u32 {
        let v = self.slots.get(self.cur).and_then(|s| s.get(self.pos)).copied().unwrap_or(0);
        self.pos += 1;
        v
    }

    /// Uniform-ish value in `0..n` (n ≥ 1), monotone in the raw choice.
    #[inline]
    pub fn below(&mut self, n: u64) -> u64 {
        debug_assert!(n >= 1);
        if n <= 1 {
            // still consume a choice so tapes stay aligned when n changes
            self.raw();
            return 0;
        }
        if n <= (1u64 << 32) {
            ((self.raw() as u64) * n) >> 32
        } else {
            let hi = self.raw() as u128;
            let lo = self.raw() as u128;
            let c = (hi << 32) | lo; // 64 bit choice
            ((c * n as u128) >> 64) as u64
        }
    }

    /// Value in `lo..=hi`.
    #[inline]
    pub fn range(&mut self, lo: u64, hi: u64) -> u64 {
        debug_assert!(hi >= lo);
        lo + self.below(hi - lo + 1)
    }

    #[inline]
    pub fn usize_below(&mut self, n: usize) -> usize {
        self.below(n as u64) as usize
    }

    /// `true` with probability num/den; `false` is the simple value.
    #[inline]
    pub fn chance(&mut self, num: u64, den: u64) -> bool {
        // high raw values -> true, so shrinking to 0 gives false
        self.below(den) >= den - num
    }

    #[inline]
    pub fn bool(&mut self) -> bool {
        self.chance(1, 2)
    }

    /// Index into `weights`; earlier entries are "simpler".
    pub fn weighted(&mut self, weights: &[u32]) -> usize {
        let total: u64 = weights.iter().map(|w| *w as u64).sum();
        debug_assert!(total > 0);
        let mut x = self.below(total);
        for (i, w) in weights.iter().enumerate() {
            if x < *w as u64 {
                return i;
            }
            x -= *w as u64;
        }
        weights.len() - 1
    }

    pub fn pick<'a, T>(&mut self, xs: &'a [T]) -> &'a T {
        &xs[self.usize_below(xs.len())]
    }

    /// A u64 biased to boundaries; index 0 = 0.
    pub fn u64_boundary(&mut self) -> u64 {
        const B: [u64; 14] = [
            0,
            1,
            2,
            3,
            255,
            256,
            65535,
            65536,
            (1 << 32) - 1,
            1 << 32,
            (1 << 63) - 1,
            1 << 63,
            u64::MAX - 1,
            u64::MAX,
        ];
        match self.weighted(&[6, 2, 2]) {
            0 => *self.pick(&B),
            1 => self.below(1000),
            _ => {
                let hi = self.raw() as u64;
                let lo = self.raw() as u64;
                (hi << 32) | lo
            }
        }
    }

    /// `n` bytes derived from the tape: cheap pseudo-random expansion of one raw choice
    /// (incompressible) — the bytes are a pure function of the tape.
    pub fn bytes_incompressible(&mut self, n: usize) -> Vec<u8> {
        let mut s = (self.raw() as u64) << 32 | 0x9E37_79B9;
        let mut out = Vec::with_capacity(n);
        while out.len() < n {
            // splitmix64
            s = s.wrapping_add(0x9E37_79B9_7F4A_7C15);
            let mut z = s;
            z = (z ^ (z >> 30)).wrapping_mul(0xBF58_476D_1CE4_E5B9);
            z = (z ^ (z >> 27)).wrapping_mul(0x94D0_49BB_1331_11EB);
            z ^= z >> 31;
            let b = z.to_le_bytes();
            let take = (n - out.len()).min(8);
            out.extend_from_slice(&b[..take]);
        }
        out
    }
}

/// Stand-alone deterministic expansion (used where a payload is described by a small spec).
pub fn expand_bytes(seed: u64, n: usize) -> Vec<u8> {
    let mut s = seed ^ 0xA076_1D64_78BD_642F;
    let mut out = Vec::with_capacity(n);
    while out.len() < n {
        s = s.wrapping_add(0x9E37_79B9_7F4A_7C15);
        let mut z = s;
        z = (z ^ (z >> 30)).wrapping_mul(0xBF58_476D_1CE4_E5B9);
        z = (z ^ (z >> 27)).wrapping_mul(0x94D0_49BB_1331_11EB);
        z ^= z >> 31;
        let b = z.to_le_bytes();
        let take = (n - out.len()).min(8);
        out.extend_from_slice(&b[..take]);
    }
    out
}

pub fn fnv1a(bytes: &[u8]) -> u64 {
    let mut h: u64 = 0xcbf2_9ce4_8422_2325;
    for b in bytes {
        h ^= *b as u64;
        h = h.wrapping_mul(0x0000_0100_0000_01B3);
    }
    h
}

pub fn mix(a: u64, b: u64) -> u64 {
    let mut z = a ^ b.wrapping_mul(0x9E37_79B9_7F4A_7C15);
    z = (z ^ (z >> 30)).wrapping_mul(0xBF58_476D_1CE4_E5B9);
    z = (z ^ (z >> 27)).wrapping_mul(0x94D0_49BB_1331_11EB);
    z ^ (z >> 31)
}
