use std::cell::RefCell;
use std::collections::{BTreeMap, BTreeSet, HashSet};
use std::io::Write as _;
use std::panic::{AssertUnwindSafe, catch_unwind};
use std::path::{Path, PathBuf};
use std::process::{Command, Stdio};
use std::sync::Mutex;
use std::sync::atomic::{AtomicU64, Ordering};
use std::time::{Duration, Instant};

use proptest::prelude::*;
use proptest::test_runner::{Config, RngSeed, TestCaseError, TestError, TestRunner};
use serde::{Deserialize, Serialize};
use serde_json::{Value, json};

use crate::tape::{Tape, fnv1a, mix};

pub const VERIF_ROOT: &str = "/verif";

#[derive(Clone, Copy, Debug, PartialEq, Eq)]
pub enum Tier {
    Quick,
    Thorough,
}

impl Tier {
    pub fn as_str(&self) -> &'static str {
        match self {
            Tier::Quick => "quick",
            Tier::Thorough => "thorough",
        }
    }
    pub fn parse(s: &str) -> Option<Tier> {
        match s {
            "quick" => Some(Tier::Quick),
            "thorough" => Some(Tier::Thorough),
            _ => None,
        }
    }
}

#[derive(Clone, Debug)]
pub struct Plan {
    /// number of generated cases (seeded PBT)
    pub cases: u64,
    /// maximum length of one tape slot (u32 choices)
    pub max_tape: usize,
    /// number of slots: 1..=1 for flat generators; stateful generators read their header from
    /// slot 0 and one operation from every further slot
    pub min_slots: usize,
    pub max_slots: usize,
    /// cases per worker process (bounds leaks of the code under test)
    pub shard_cases: u64,
    /// wall clock watchdog per shard; exceeding it is "inconclusive" (exit 2)
    pub shard_timeout_s: u64,
    pub max_shrink_iters: u32,
    /// number of exhaustive-enumeration shards (0 = none)
    pub exhaustive_shards: u64,
    /// worker processes run at the same time
    pub parallel: usize,
}

impl Default for Plan {
    fn default() -> Self {
        Plan {
            cases: 100,
            max_tape: 256,
            min_slots: 1,
            max_slots: 1,
            shard_cases: 50,
            shard_timeout_s: 600,
            max_shrink_iters: 2000,
            exhaustive_shards: 0,
            parallel: 16,
        }
    }
}

#[derive(Clone, Debug, Serialize, Deserialize)]
pub struct Failure {
    pub signature: String,
    pub message: String,
}

impl Failure {
    pub fn new(signature: impl Into<String>, message: impl Into<String>) -> Self {
        Failure {
            signature: signature.into(),
            message: message.into(),
        }
    }
}

/// What one executed case reports back.
#[derive(Clone, Debug, Default, Serialize, Deserialize)]
pub struct CaseOut {
    /// hash of the rendered case (distinctness)
    pub fingerprint: u64,
    /// non-trivial by the check's stated rule
    pub nontrivial: bool,
    /// labels describing what the generator produced (histogram in the evidence)
    pub classes: Vec<String>,
    /// additive counters (reads checked, cuts tried, ...)
    pub counters: BTreeMap<String, u64>,
    /// rendered case for humans
    pub sample: Value,
    /// oracle failures that belong to the property under check
    pub failures: Vec<Failure>,
    /// signatures of failures that belong to *other* properties (case is cut short there)
    pub foreign: Vec<String>,
    /// process-level parameter the case ran under that is not on the tape (e.g. the replication
    /// factor of the one cluster node a worker process can host); stored in replay files and
    /// handed back through `Env::hint`
    #[serde(default)]
    pub hint: Option<u64>,
}

impl CaseOut {
    pub fn class(&mut self, c: &str) {
        if !self.classes.iter().any(|x| x == c) {
            self.classes.push(c.to_string());
        }
    }
    pub fn count(&mut self, c: &str, n: u64) {
        *self.counters.entry(c.to_string()).or_insert(0) += n;
    }
    pub fn fail(&mut self, signature: impl Into<String>, message: impl Into<String>) {
        self.failures.push(Failure::new(signature, message));
    }
    pub fn set_sample(&mut self, v: Value) {
        self.fingerprint = fnv1a(v.to_string().as_bytes());
        self.sample = v;
    }
}

#[derive(Clone, Debug, Default, Serialize, Deserialize)]
pub struct ExhaustOut {
    pub evaluations: u64,
    pub nontrivial: u64,
    pub counters: BTreeMap<String, u64>,
    pub samples: Vec<Value>,
    /// (failure, params to replay it)
    pub failures: Vec<(Failure, Value)>,
}

pub struct Env {
    pub tier: Tier,
    pub seed: u64,
    /// replay / corpus mode: known findings are *not* excluded by construction
    pub strict: bool,
    pub known: Known,
    pub shard: u64,
    /// see `CaseOut::hint`; `None` in generated shards (derive it from `seed`/`shard`)
    pub hint: Option<u64>,
}

impl Env {
    /// Should the generator steer around the listed finding with this signature?
    pub fn avoid(&self, signature: &str) -> bool {
        !self.strict && self.known.has(signature)
    }
}

pub trait Check: Sync {
    fn id(&self) -> &'static str;
    /// "exploration" | "fault_enumeration"
    fn level(&self) -> &'static str;
    fn rule(&self) -> String;
    fn assumptions(&self) -> Vec<String>;
    fn plan(&self, tier: Tier) -> Plan;
    fn run_case(&self, tape: &mut Tape, env: &Env) -> CaseOut;
    /// Whether an abnormal death of the worker process during a case is a violation of
    /// this property (otherwise: inconclusive).
    fn abort_is_violation(&self) -> bool {
        false
    }
    fn run_exhaustive(&self, _shard: u64, _total: u64, _env: &Env) -> ExhaustOut {
        ExhaustOut::default()
    }
    fn replay_params(&self, _params: &Value, _env: &Env) -> Vec<Failure> {
        Vec::new()
    }
    /// Set `exhaustive: true` in the evidence (a finite space was enumerated completely).
    fn exhaustive_claim(&self, _tier: Tier) -> bool {
        false
    }
}

// ---------------------------------------------------------------------------------------------
// known findings

#[derive(Clone, Debug, Default, Serialize, Deserialize)]
pub struct KnownEntry {
    pub property: String,
    pub signature: String,
    pub what: String,
}

#[derive(Clone, Debug, Default, Serialize, Deserialize)]
pub struct Known {
    #[serde(default)]
    pub findings: Vec<KnownEntry>,
    /// lines "fixed: property=<id> <commit> <what failed>" — they suppress nothing
    #[serde(default)]
    pub fixed: Vec<String>,
}

impl Known {
    pub fn load() -> Known {
        let p = Path::new(VERIF_ROOT).join("known_findings.json");
        match std::fs::read_to_string(&p) {
            Ok(s) => serde_json::from_str(&s).expect("known_findings.json must parse"),
            Err(_) => Known::default(),
        }
    }
    pub fn has(&self, signature: &str) -> bool {
        self.findings.iter().any(|f| f.signature == signature)
    }
    pub fn get(&self, signature: &str) -> Option<&KnownEntry> {
        self.findings.iter().find(|f| f.signature == signature)
    }
}

// ---------------------------------------------------------------------------------------------
// panic recording

#[derive(Clone, Debug)]
pub struct PanicInfo {
    pub thread: String,
    pub location: String,
    pub message: String,
}

static PANICS: Mutex<Vec<PanicInfo>> = Mutex::new(Vec::new());

pub fn install_panic_hook() {
    let verbose = std::env::var("VERIF_VERBOSE").is_ok();
    std::panic::set_hook(Box::new(move |info| {
        let msg = if let Some(s) = info.payload().downcast_ref::<&str>() {
            s.to_string()
        } else if let Some(s) = info.payload().downcast_ref::<String>() {
            s.clone()
        } else {
            "<non-string panic>".to_string()
        };
        let loc = info
            .location()
            .map(|l| format!("{}:{}", l.file(), l.line()))
            .unwrap_or_default();
        let th = std::thread::current().name().unwrap_or("?").to_string();
        if verbose {
            eprintln!("[panic] thread={th} at {loc}: {msg}");
        }
        if let Ok(mut p) = PANICS.lock() {
            if p.len() >= 4000 {
                // keep the list bounded but never refuse new entries (callers index by length:
                // they only look at entries added after their own starting length, so a drain
                // between their two looks can only lose attribution, not invent one)
                p.clear();
            }
            p.push(PanicInfo {
                thread: th,
                location: loc,
                message: msg,
            });
        }
    }));
}

pub fn take_panics() -> Vec<PanicInfo> {
    PANICS.lock().map(|mut p| std::mem::take(&mut *p)).unwrap_or_default()
}

/// The most recent panic recorded after the list had `before` entries.
pub fn last_panic_since(before: usize) -> Option<PanicInfo> {
    let ps = peek_panics();
    match ps.get(before..) {
        Some(s) => s.last().cloned(),
        None => ps.last().cloned(), // the list was drained in between
    }
}

pub fn peek_panics() -> Vec<PanicInfo> {
    PANICS.lock().map(|p| p.clone()).unwrap_or_default()
}

/// Stable classification of a panic: file name (no directories, no line) + message with
/// digits collapsed, truncated.
pub fn panic_shape(p: &PanicInfo) -> String {
    let file = p
        .location
        .rsplit('/')
        .next()
        .unwrap_or("")
        .split(':')
        .next()
        .unwrap_or("");
    let mut msg = String::new();
    let mut last_digit = false;
    for ch in p.message.chars() {
        if ch.is_ascii_digit() {
            if !last_digit {
                msg.push('#');
            }
            last_digit = true;
        } else {
            last_digit = false;
            msg.push(if ch.is_ascii_alphanumeric() || ch == '#' { ch } else { '-' });
        }
        if msg.len() >= 48 {
            break;
        }
    }
    format!("{file}:{msg}")
}

// ---------------------------------------------------------------------------------------------
// scratch directories

static SCRATCH_N: AtomicU64 = AtomicU64::new(0);

pub struct Scratch {
    path: PathBuf,
}

impl Scratch {
    pub fn new(tag: &str) -> Scratch {
        let base = if Path::new("/dev/shm").is_dir() {
            PathBuf::from("/dev/shm")
        } else {
            std::env::temp_dir()
        };
        let n = SCRATCH_N.fetch_add(1, Ordering::Relaxed);
        let path = base.join(format!("verif-{}-{}-{}", std::process::id(), tag, n));
        let _ = std::fs::remove_dir_all(&path);
        std::fs::create_dir_all(&path).expect("create scratch dir");
        Scratch { path }
    }
    pub fn path(&self) -> &Path {
        &self.path
    }
}

impl Drop for Scratch {
    fn drop(&mut self) {
        let _ = std::fs::remove_dir_all(&self.path);
    }
}

/// Errors that say the *machine* ran out of something (descriptors, threads, memory): a case
/// that dies of one is inconclusive, never a verdict about the code under test.
pub fn is_resource_exhaustion(err: &str) -> bool {
    let e = err.to_ascii_lowercase();
    ["too many open files", "resource temporarily unavailable", "cannot allocate memory", "os error 24", "os error 11", "os error 12", "no space left on device", "os error 28", "failed to spawn thread"].iter().any(|k| e.contains(k))
}

/// Removes what a finished (or killed) worker process left in the scratch area: workers end
/// with `process::exit`, so scratch directories held in statics are never dropped.
pub fn cleanup_scratch_of(pid: u32) {
    for base in [PathBuf::from("/dev/shm"), std::env::temp_dir()] {
        let prefix = format!("verif-{pid}-");
        if let Ok(rd) = std::fs::read_dir(&base) {
            for e in rd.flatten() {
                if e.file_name().to_string_lossy().starts_with(&prefix) {
                    let _ = std::fs::remove_dir_all(e.path());
                }
            }
        }
    }
}

pub fn copy_dir(src: &Path, dst: &Path) -> std::io::Result<()> {
    std::fs::create_dir_all(dst)?;
    for e in std::fs::read_dir(src)? {
        let e = e?;
        let ty = e.file_type()?;
        let to = dst.join(e.file_name());
        if ty.is_dir() {
            copy_dir(&e.path(), &to)?;
        } else {
            std::fs::copy(e.path(), &to)?;
        }
    }
    Ok(())
}

// ---------------------------------------------------------------------------------------------
// shard results

#[derive(Clone, Debug, Default, Serialize, Deserialize)]
pub struct KnownHit {
    pub count: u64,
    pub tape: Vec<Vec<u32>>,
    pub message: String,
}

#[derive(Clone, Debug, Default, Serialize, Deserialize)]
pub struct ViolationRec {
    pub signature: String,
    pub message: String,
    pub tape: Option<Vec<Vec<u32>>>,
    pub params: Option<Value>,
    pub sample: Value,
    #[serde(default)]
    pub hint: Option<u64>,
}

#[derive(Clone, Debug, Default, Serialize, Deserialize)]
pub struct ShardResult {
    pub evaluations: u64,
    pub nontrivial: Vec<u64>,
    pub nontrivial_extra: u64,
    pub classes: BTreeMap<String, u64>,
    pub counters: BTreeMap<String, u64>,
    pub samples: Vec<Value>,
    pub samples_nontrivial: Vec<Value>,
    pub known_hits: BTreeMap<String, KnownHit>,
    pub foreign: BTreeMap<String, u64>,
    pub violations: Vec<ViolationRec>,
}

impl ShardResult {
    fn absorb_case(&mut self, out: &CaseOut) {
        self.evaluations += 1;
        if out.nontrivial {
            self.nontrivial.push(out.fingerprint);
            if self.samples_nontrivial.len() < 2 {
                self.samples_nontrivial.push(out.sample.clone());
            }
        } else if self.samples.len() < 2 {
            self.samples.push(out.sample.clone());
        }
        for c in &out.classes {
            *self.classes.entry(c.clone()).or_insert(0) += 1;
        }
        for (k, v) in &out.counters {
            *self.counters.entry(k.clone()).or_insert(0) += v;
        }
        for f in &out.foreign {
            *self.foreign.entry(f.clone()).or_insert(0) += 1;
        }
    }

    fn merge(&mut self, o: ShardResult) {
        self.evaluations += o.evaluations;
        self.nontrivial.extend(o.nontrivial);
        self.nontrivial_extra += o.nontrivial_extra;
        for (k, v) in o.classes {
            *self.classes.entry(k).or_insert(0) += v;
        }
        for (k, v) in o.counters {
            *self.counters.entry(k).or_insert(0) += v;
        }
        for s in o.samples {
            if self.samples.len() < 3 {
                self.samples.push(s);
            }
        }
        for s in o.samples_nontrivial {
            if self.samples_nontrivial.len() < 3 {
                self.samples_nontrivial.push(s);
            }
        }
        for (k, v) in o.known_hits {
            let e = self.known_hits.entry(k).or_default();
            if e.count == 0 {
                e.tape = v.tape;
                e.message = v.message;
            }
            e.count += v.count;
        }
        for (k, v) in o.foreign {
            *self.foreign.entry(k).or_insert(0) += v;
        }
        self.violations.extend(o.violations);
    }
}

/// Execute one case with panic capture. A panic on the driving thread is a failure of the
/// property under check with signature `<ID>/panic/<shape>`.
pub fn exec_case(check: &dyn Check, tape: &mut Tape, env: &Env) -> CaseOut {
    let before = peek_panics().len();
    let res = catch_unwind(AssertUnwindSafe(|| check.run_case(tape, env)));
    match res {
        Ok(out) => out,
        Err(_) => {
            let last = last_panic_since(before);
            let shape = last.as_ref().map(panic_shape).unwrap_or_else(|| "unknown".into());
            let msg = last.map(|p| format!("panic at {}: {}", p.location, p.message)).unwrap_or_default();
            let mut out = CaseOut::default();
            if is_resource_exhaustion(&msg) {
                out.class("inconclusive-resource-exhaustion");
                out.count("inconclusive_resource_exhaustion", 1);
                out.set_sample(json!({"inconclusive": msg}));
                return out;
            }
            out.set_sample(json!({"tape_len": tape.len(), "panic": msg}));
            out.fail(format!("{}/panic/{}", check.id(), shape), msg);
            out
        }
    }
}

const FD_PRESSURE: usize = 9000;

fn open_fds() -> usize {
    std::fs::read_dir("/proc/self/fd").map(|d| d.count()).unwrap_or(0)
}

fn shard_seed(seed: u64, id: &str, shard: u64) -> u64 {
    mix(mix(seed, fnv1a(id.as_bytes())), shard)
}

fn inflight_path(id: &str, shard: u64) -> PathBuf {
    let dir = Path::new(VERIF_ROOT).join("target").join("verif-run");
    let _ = std::fs::create_dir_all(&dir);
    dir.join(format!("inflight-{}-{}-{}", id, std::process::id(), shard))
}

fn run_pbt_shard(check: &dyn Check, env: &Env, cases: u64, plan: &Plan, inflight: &Path) -> ShardResult {
    let cfg = Config {
        cases: cases as u32,
        rng_seed: RngSeed::Fixed(shard_seed(env.seed, check.id(), env.shard)),
        failure_persistence: None,
        max_shrink_iters: plan.max_shrink_iters,
        max_global_rejects: 0,
        ..Config::default()
    };
    let mut runner = TestRunner::new(cfg);
    let strategy = proptest::collection::vec(proptest::collection::vec(any::<u32>(), 0..=plan.max_tape), plan.min_slots..=plan.max_slots);

    struct St {
        res: ShardResult,
        target: Option<String>,
        first_message: String,
    }
    let st = RefCell::new(St {
        res: ShardResult::default(),
        target: None,
        first_message: String::new(),
    });

    let run = runner.run(&strategy, |v| {
        // The code under test leaks descriptors and threads per database open; when this worker
        // runs low, stop executing (search: the rest of the shard is skipped and counted;
        // shrinking: remaining candidates count as passing, so shrinking simply stops).
        if open_fds() > FD_PRESSURE {
            let mut s = st.borrow_mut();
            if s.target.is_none() {
                *s.res.counters.entry("cases_skipped_fd_pressure".into()).or_insert(0) += 1;
            }
            return Ok(());
        }
        // record the case in flight so an abort can be attributed
        let _ = std::fs::write(inflight, serde_json::to_vec(&v).unwrap_or_default());
        let mut tape = Tape::new_slots(v.clone());
        let out = exec_case(check, &mut tape, env);
        let mut s = st.borrow_mut();
        let searching = s.target.is_none();
        if searching {
            s.res.absorb_case(&out);
        }
        for f in &out.failures {
            if !env.strict && env.known.has(&f.signature) {
                if searching {
                    let e = s.res.known_hits.entry(f.signature.clone()).or_default();
                    if e.count == 0 {
                        e.tape = v.clone();
                        e.message = f.message.clone();
                    }
                    e.count += 1;
                }
                continue;
            }
            match &s.target {
                None => {
                    s.target = Some(f.signature.clone());
                    s.first_message = f.message.clone();
                    return Err(TestCaseError::fail(f.signature.clone()));
                }
                Some(t) if *t == f.signature => {
                    return Err(TestCaseError::fail(f.signature.clone()));
                }
                _ => {}
            }
        }
        Ok(())
    });

    let mut st = st.into_inner();
    match run {
        Ok(()) => {}
        Err(TestError::Fail(_, minimal)) => {
            let target = st.target.clone().unwrap_or_default();
            let mut tape = Tape::new_slots(minimal.clone());
            let out = exec_case(check, &mut tape, env);
            let f = out
                .failures
                .iter()
                .find(|f| f.signature == target)
                .cloned()
                .or_else(|| out.failures.first().cloned())
                .unwrap_or_else(|| Failure::new(target.clone(), format!("{} [did not reproduce on re-run of the shrunk tape (flaky)]", st.first_message)));
            st.res.violations.push(ViolationRec {
                signature: f.signature,
                message: f.message,
                tape: Some(minimal),
                params: None,
                sample: out.sample,
                hint: out.hint,
            });
        }
        Err(TestError::Abort(reason)) => {
            st.res.violations.push(ViolationRec {
                signature: format!("{}/engine/abort", check.id()),
                message: format!("proptest aborted: {reason}"),
                tape: None,
                params: None,
                sample: Value::Null,
                hint: None,
            });
        }
    }
    let _ = std::fs::remove_file(inflight);
    st.res
}

fn corpus_files(id: &str) -> Vec<PathBuf> {
    let dir = Path::new(VERIF_ROOT).join("corpus").join(id);
    let mut files: Vec<PathBuf> = match std::fs::read_dir(&dir) {
        Ok(rd) => rd.filter_map(|e| e.ok().map(|e| e.path())).filter(|p| p.extension().map(|e| e == "json").unwrap_or(false)).collect(),
        Err(_) => Vec::new(),
    };
    files.sort();
    files
}

/// Regression inputs run in strict mode, one worker process per file (a file may carry a
/// process-level hint such as the replication factor of the node).
fn run_corpus_file(check: &dyn Check, tier: Tier, seed: u64, index: usize) -> ShardResult {
    let mut res = ShardResult::default();
    let files = corpus_files(check.id());
    let Some(f) = files.get(index) else { return res };
    let Ok(s) = std::fs::read_to_string(f) else { return res };
    let Ok(v) = serde_json::from_str::<Value>(&s) else { return res };
    let hint = v.get("hint").and_then(|h| h.as_u64());
    let env = Env { tier, seed, strict: true, known: Known::load(), shard: index as u64, hint };
    let (failures, sample, tape, params) = replay_value(check, &v, &env);
    res.evaluations += 1;
    *res.counters.entry("corpus_inputs".into()).or_insert(0) += 1;
    for fl in failures {
        if env.known.has(&fl.signature) {
            let e = res.known_hits.entry(fl.signature.clone()).or_default();
            if e.count == 0 {
                e.tape = tape.clone().unwrap_or_default();
                e.message = fl.message.clone();
            }
            e.count += 1;
        } else {
            res.violations.push(ViolationRec {
                signature: fl.signature,
                message: format!("[corpus {}] {}", f.display(), fl.message),
                tape: tape.clone(),
                params: params.clone(),
                sample: sample.clone(),
                hint,
            });
        }
    }
    res
}

fn parse_tape(t: &Value) -> Option<Vec<Vec<u32>>> {
    let arr = t.as_array()?;
    if arr.iter().all(|x| x.is_array()) && !arr.is_empty() {
        Some(arr.iter().map(|s| s.as_array().unwrap().iter().map(|x| x.as_u64().unwrap_or(0) as u32).collect()).collect())
    } else {
        Some(vec![arr.iter().map(|x| x.as_u64().unwrap_or(0) as u32).collect()])
    }
}

fn replay_value(check: &dyn Check, v: &Value, env: &Env) -> (Vec<Failure>, Value, Option<Vec<Vec<u32>>>, Option<Value>) {
    if let Some(data) = v.get("tape").and_then(parse_tape) {
        let mut tape = Tape::new_slots(data.clone());
        let out = exec_case(check, &mut tape, env);
        (out.failures, out.sample, Some(data), None)
    } else if let Some(p) = v.get("params") {
        let before = peek_panics().len();
        let r = catch_unwind(AssertUnwindSafe(|| check.replay_params(p, env)));
        let fails = match r {
            Ok(f) => f,
            Err(_) => {
                let shape = last_panic_since(before).as_ref().map(panic_shape).unwrap_or_default();
                vec![Failure::new(format!("{}/panic/{}", check.id(), shape), "panic during replay")]
            }
        };
        (fails, p.clone(), None, Some(p.clone()))
    } else {
        (Vec::new(), Value::Null, None, None)
    }
}

fn run_exhaustive_shard(check: &dyn Check, env: &Env, shard: u64, total: u64) -> ShardResult {
    let mut res = ShardResult::default();
    let before = peek_panics().len();
    let r = catch_unwind(AssertUnwindSafe(|| check.run_exhaustive(shard, total, env)));
    match r {
        Ok(out) => {
            res.evaluations = out.evaluations;
            res.nontrivial_extra = out.nontrivial;
            res.counters = out.counters;
            for s in out.samples.into_iter().take(3) {
                res.samples_nontrivial.push(s);
            }
            for (f, params) in out.failures {
                if !env.strict && env.known.has(&f.signature) {
                    let e = res.known_hits.entry(f.signature.clone()).or_default();
                    if e.count == 0 {
                        e.message = format!("{} params={}", f.message, params);
                    }
                    e.count += 1;
                } else if !res.violations.iter().any(|v| v.signature == f.signature) {
                    res.violations.push(ViolationRec {
                        signature: f.signature,
                        message: f.message,
                        tape: None,
                        params: Some(params.clone()),
                        sample: params,
                        hint: None,
                    });
                }
            }
        }
        Err(_) => {
            let shape = last_panic_since(before).as_ref().map(panic_shape).unwrap_or_default();
            res.violations.push(ViolationRec {
                signature: format!("{}/panic/{}", check.id(), shape),
                message: "panic escaped the exhaustive stage".into(),
                tape: None,
                params: None,
                sample: Value::Null,
                hint: None,
            });
        }
    }
    res
}

// ---------------------------------------------------------------------------------------------
// orchestrator

fn seed_from_env() -> u64 {
    std::env::var("VERIF_SEED")
        .ok()
        .and_then(|s| s.trim().parse::<i128>().ok())
        .map(|v| v as u64)
        .unwrap_or(1)
}

enum ShardKind {
    Corpus { index: u64 },
    Pbt { shard: u64, cases: u64 },
    Exhaustive { shard: u64, total: u64 },
}

struct Running {
    child: std::process::Child,
    kind: String,
    started: Instant,
    inflight: PathBuf,
    stdout_path: PathBuf,
    stderr_path: PathBuf,
}

pub fn main_entry(checks: &[&dyn Check]) -> ! {
    install_panic_hook();
    let args: Vec<String> = std::env::args().collect();
    let code = match args.get(1).map(|s| s.as_str()) {
        Some("--worker") => worker_main(checks, &args[2..]),
        Some("--replay") => replay_main(checks, &args[2..]),
        Some("--emit-fuzz-corpus") => {
            let id = args.get(2).cloned().unwrap_or_default();
            let dir = args.get(3).cloned().unwrap_or_default();
            let n = args.get(4).and_then(|s| s.parse().ok()).unwrap_or(16);
            match checks.iter().find(|c| c.id() == id) {
                Some(c) => match emit_fuzz_corpus(*c, Path::new(&dir), n) {
                    Ok(k) => {
                        println!("{k} inputs");
                        0
                    }
                    Err(e) => {
                        eprintln!("{e}");
                        2
                    }
                },
                None => 2,
            }
        }
        Some("--list") => {
            for c in checks {
                println!("{}", c.id());
            }
            0
        }
        Some(id) => {
            let tier = args.get(2).and_then(|s| Tier::parse(s)).or_else(|| std::env::var("VERIF_TIER").ok().and_then(|s| Tier::parse(&s))).unwrap_or(Tier::Quick);
            match checks.iter().find(|c| c.id() == id) {
                Some(c) => orchestrate(*c, tier),
                None => {
                    eprintln!("unknown check {id}");
                    2
                }
            }
        }
        None => {
            eprintln!("usage: <ID> <quick|thorough> | --replay <file> | --list");
            2
        }
    };
    cleanup_scratch_of(std::process::id());
    std::process::exit(code)
}

fn raise_fd_limit() {
    unsafe {
        let mut r = libc::rlimit { rlim_cur: 0, rlim_max: 0 };
        if libc::getrlimit(libc::RLIMIT_NOFILE, &mut r) == 0 && r.rlim_cur < r.rlim_max {
            r.rlim_cur = r.rlim_max;
            libc::setrlimit(libc::RLIMIT_NOFILE, &r);
        }
    }
}

fn worker_main(checks: &[&dyn Check], a: &[String]) -> i32 {
    raise_fd_limit();
    // --worker <ID> <tier> <seed> <kind> <shard> <n> <inflight>
    let id = &a[0];
    let tier = Tier::parse(&a[1]).unwrap();
    let seed: u64 = a[2].parse().unwrap();
    let kind = a[3].as_str();
    let shard: u64 = a[4].parse().unwrap();
    let n: u64 = a[5].parse().unwrap();
    let inflight = PathBuf::from(&a[6]);
    let check = *checks.iter().find(|c| c.id() == id).expect("check id");
    let plan = check.plan(tier);
    let res = match kind {
        "corpus" => run_corpus_file(check, tier, seed, shard as usize),
        "pbt" => {
            let env = Env { tier, seed, strict: false, known: Known::load(), shard, hint: None };
            run_pbt_shard(check, &env, n, &plan, &inflight)
        }
        "exh" => {
            let env = Env { tier, seed, strict: false, known: Known::load(), shard, hint: None };
            run_exhaustive_shard(check, &env, shard, n)
        }
        _ => panic!("bad kind"),
    };
    let s = serde_json::to_string(&res).unwrap();
    let out = std::io::stdout();
    let mut lock = out.lock();
    let _ = writeln!(lock, "\n@@RESULT {s}");
    let _ = lock.flush();
    0
}

fn slug(s: &str) -> String {
    s.chars()
        .map(|c| if c.is_ascii_alphanumeric() || c == '-' || c == '_' { c } else { '_' })
        .take(80)
        .collect()
}

fn write_replay(id: &str, seed: u64, v: &ViolationRec) -> PathBuf {
    let dir = Path::new(VERIF_ROOT).join("replays");
    let _ = std::fs::create_dir_all(&dir);
    let path = dir.join(format!("{}-{}-{}.json", id, slug(&v.signature), seed));
    let mut obj = json!({
        "property": id,
        "signature": v.signature,
        "message": v.message,
        "case": v.sample,
        "seed": seed,
    });
    if let Some(t) = &v.tape {
        obj["tape"] = json!(t);
    }
    if let Some(p) = &v.params {
        obj["params"] = p.clone();
    }
    if let Some(h) = v.hint {
        obj["hint"] = json!(h);
    }
    let _ = std::fs::write(&path, serde_json::to_string_pretty(&obj).unwrap());
    path
}

fn replay_main(checks: &[&dyn Check], a: &[String]) -> i32 {
    let Some(path) = a.first() else {
        eprintln!("--replay <file>");
        return 2;
    };
    let s = match std::fs::read_to_string(path) {
        Ok(s) => s,
        Err(e) => {
            eprintln!("cannot read {path}: {e}");
            return 2;
        }
    };
    let v: Value = serde_json::from_str(&s).expect("replay json");
    let id = v.get("property").and_then(|p| p.as_str()).unwrap_or("");
    let Some(check) = checks.iter().find(|c| c.id() == id) else {
        eprintln!("replay file is for property {id}, not served by this binary");
        return 3;
    };
    let hint = v.get("hint").and_then(|h| h.as_u64());
    let env = Env { tier: Tier::Quick, seed: seed_from_env(), strict: true, known: Known::load(), shard: 0, hint };
    let (fails, sample, _, _) = replay_value(*check, &v, &env);
    println!("case: {}", serde_json::to_string(&sample).unwrap_or_default());
    if fails.is_empty() {
        println!("replay: no failure");
        return 0;
    }
    let mut code = 0;
    for f in &fails {
        if let Some(k) = env.known.get(&f.signature) {
            println!("KNOWN-FINDING: property={} {} [{}]", id, k.what, f.signature);
        } else {
            println!("failure {}: {}", f.signature, f.message);
            println!("VIOLATION property={} replay={}", id, path);
            code = 1;
        }
    }
    code
}

fn spawn_worker(id: &str, tier: Tier, seed: u64, kind: &ShardKind) -> std::io::Result<Running> {
    let exe = std::env::current_exe()?;
    let (k, shard, n) = match kind {
        ShardKind::Corpus { index } => ("corpus", *index, 0),
        ShardKind::Pbt { shard, cases } => ("pbt", *shard, *cases),
        ShardKind::Exhaustive { shard, total } => ("exh", *shard, *total),
    };
    let inflight = inflight_path(id, if k == "corpus" { 1_000_000 + shard } else if k == "exh" { 2_000_000 + shard } else { shard });
    let stdout_path = inflight.with_extension("out");
    let stderr_path = inflight.with_extension("err");
    let child = Command::new(exe)
        .arg("--worker")
        .arg(id)
        .arg(tier.as_str())
        .arg(seed.to_string())
        .arg(k)
        .arg(shard.to_string())
        .arg(n.to_string())
        .arg(&inflight)
        .stdin(Stdio::null())
        .stdout(std::fs::File::create(&stdout_path)?)
        .stderr(std::fs::File::create(&stderr_path)?)
        .spawn()?;
    Ok(Running {
        child,
        kind: format!("{k}#{shard}"),
        started: Instant::now(),
        inflight,
        stdout_path,
        stderr_path,
    })
}

fn tail(path: &Path, n: usize) -> String {
    let s = std::fs::read_to_string(path).unwrap_or_default();
    let lines: Vec<&str> = s.lines().collect();
    lines[lines.len().saturating_sub(n)..].join("\n")
}

fn orchestrate(check: &dyn Check, tier: Tier) -> i32 {
    let t0 = Instant::now();
    let id = check.id();
    let seed = seed_from_env();
    let mut plan = check.plan(tier);
    if let Some(n) = std::env::var("VERIF_CASES").ok().and_then(|s| s.parse::<u64>().ok()) {
        plan.cases = n; // experimentation only
    }
    let known = Known::load();

    let mut queue: Vec<ShardKind> = (0..corpus_files(id).len() as u64).map(|index| ShardKind::Corpus { index }).collect();
    let nshards = if plan.cases == 0 { 0 } else { plan.cases.div_ceil(plan.shard_cases.max(1)) };
    for s in 0..nshards {
        let cases = if s == nshards - 1 { plan.cases - s * plan.shard_cases } else { plan.shard_cases };
        queue.push(ShardKind::Pbt { shard: s, cases });
    }
    for s in 0..plan.exhaustive_shards {
        queue.push(ShardKind::Exhaustive { shard: s, total: plan.exhaustive_shards });
    }
    queue.reverse();

    let mut running: Vec<Running> = Vec::new();
    let mut merged = ShardResult::default();
    let mut inconclusive: Vec<String> = Vec::new();
    let parallel = plan.parallel.max(1);

    let mut shards_not_started = 0u64;
    loop {
        // once two distinct violations are on record further shards add nothing to the verdict
        // (each would stop at its first failure and shrink it again): the rest of the queue is
        // dropped and counted; shards already running finish
        let distinct_violations: BTreeSet<&str> = merged.violations.iter().map(|v| v.signature.as_str()).collect();
        if distinct_violations.len() >= 2 || (merged.violations.len() >= 6) {
            shards_not_started += queue.len() as u64;
            queue.clear();
        }
        while running.len() < parallel {
            let Some(k) = queue.pop() else { break };
            match spawn_worker(id, tier, seed, &k) {
                Ok(r) => running.push(r),
                Err(e) => inconclusive.push(format!("spawn failed: {e}")),
            }
        }
        if running.is_empty() {
            break;
        }
        std::thread::sleep(Duration::from_millis(20));
        let mut i = 0;
        while i < running.len() {
            let done = match running[i].child.try_wait() {
                Ok(Some(status)) => Some(Some(status)),
                Ok(None) => {
                    if running[i].started.elapsed() > Duration::from_secs(plan.shard_timeout_s) {
                        let _ = running[i].child.kill();
                        let _ = running[i].child.wait();
                        Some(None)
                    } else {
                        None
                    }
                }
                Err(_) => Some(None),
            };
            if let Some(status) = done {
                let r = running.swap_remove(i);
                cleanup_scratch_of(r.child.id());
                let out = std::fs::read_to_string(&r.stdout_path).unwrap_or_default();
                let parsed = out
                    .lines()
                    .rev()
                    .find_map(|l| l.strip_prefix("@@RESULT "))
                    .and_then(|j| serde_json::from_str::<ShardResult>(j).ok());
                match (status, parsed) {
                    (Some(st), Some(res)) if st.success() => merged.merge(res),
                    (None, _) => {
                        // keep the case that was in flight so the hang can be looked at by hand
                        let tape: Option<Vec<Vec<u32>>> = std::fs::read(&r.inflight).ok().and_then(|b| serde_json::from_slice(&b).ok());
                        let mut note = String::new();
                        if let Some(t) = tape {
                            let v = ViolationRec { signature: format!("{id}/watchdog"), message: "case in flight when the watchdog stopped the worker (inconclusive, not a violation)".into(), tape: Some(t), params: None, sample: Value::Null, hint: None };
                            let p = write_replay(&format!("{id}-inflight"), seed, &v);
                            note = format!("; case in flight saved to {}", p.display());
                        }
                        inconclusive.push(format!("worker {} exceeded its {} s watchdog and was stopped{note}", r.kind, plan.shard_timeout_s));
                    }
                    (Some(st), _) => {
                        // abnormal exit: attribute to the case in flight
                        let tape: Option<Vec<Vec<u32>>> = std::fs::read(&r.inflight).ok().and_then(|b| serde_json::from_slice(&b).ok());
                        let why = format!("worker {} died ({st}); stderr tail:\n{}", r.kind, tail(&r.stderr_path, 15));
                        let sig = format!("{id}/worker-abort");
                        if check.abort_is_violation() && tape.is_some() {
                            if known.has(&sig) {
                                let e = merged.known_hits.entry(sig).or_default();
                                e.count += 1;
                                e.message = why;
                                e.tape = tape.unwrap();
                            } else {
                                merged.violations.push(ViolationRec { signature: sig, message: why, tape, params: None, sample: Value::Null, hint: None });
                            }
                        } else {
                            inconclusive.push(why);
                        }
                    }
                }
                let _ = std::fs::remove_file(&r.stdout_path);
                let _ = std::fs::remove_file(&r.stderr_path);
                let _ = std::fs::remove_file(&r.inflight);
            } else {
                i += 1;
            }
        }
    }

    // ---- report
    let distinct: BTreeSet<u64> = merged.nontrivial.iter().copied().collect();
    let distinct_nontrivial = distinct.len() as u64 + merged.nontrivial_extra;
    let mut seen_sigs = BTreeSet::new();
    let mut violation_lines = Vec::new();
    for v in &merged.violations {
        if seen_sigs.insert(v.signature.clone()) {
            let p = write_replay(id, seed, v);
            violation_lines.push((v.signature.clone(), v.message.clone(), p));
        }
    }
    let mut samples: Vec<Value> = merged.samples_nontrivial.clone();
    samples.extend(merged.samples.iter().cloned());
    samples.truncate(5);
    if samples.is_empty() {
        samples.push(json!("no case executed"));
    }
    let total = merged.evaluations.max(1);
    let class_hist: BTreeMap<String, Value> = merged
        .classes
        .iter()
        .map(|(k, v)| (k.clone(), json!({"cases": v, "fraction": (*v as f64) / (total as f64)})))
        .collect();
    let known_obs: BTreeMap<String, Value> = merged
        .known_hits
        .iter()
        .map(|(k, v)| (k.clone(), json!({"cases": v.count, "example": v.message})))
        .collect();
    let evidence = json!({
        "property_id": id,
        "tier": tier.as_str(),
        "seed": seed as i64,
        "level": check.level(),
        "coverage": {
            "evaluations": merged.evaluations,
            "distinct_nontrivial": distinct_nontrivial,
            "rule": check.rule(),
            "samples": samples,
            "classes": class_hist,
            "counters": merged.counters,
            "known_findings_observed": known_obs,
            "foreign_property_failures_seen": merged.foreign,
            "exhaustive": check.exhaustive_claim(tier) && shards_not_started == 0,
            "plan": {"cases": plan.cases, "max_tape_per_slot": plan.max_tape, "max_slots": plan.max_slots, "shard_cases": plan.shard_cases, "exhaustive_shards": plan.exhaustive_shards},
            "inconclusive": inconclusive,
            "shards_not_started_after_violations": shards_not_started,
        },
        "assumptions": check.assumptions(),
        "wall_s": t0.elapsed().as_secs_f64(),
        "violations": violation_lines.len(),
    });
    let evdir = Path::new(VERIF_ROOT).join("evidence");
    let _ = std::fs::create_dir_all(&evdir);
    let _ = std::fs::write(evdir.join(format!("{id}.json")), serde_json::to_string_pretty(&evidence).unwrap());

    println!(
        "{id} {}: evaluations={} distinct_nontrivial={} known_hits={} violations={} wall={:.1}s",
        tier.as_str(),
        merged.evaluations,
        distinct_nontrivial,
        merged.known_hits.values().map(|k| k.count).sum::<u64>(),
        violation_lines.len(),
        t0.elapsed().as_secs_f64()
    );
    for (sig, hit) in &merged.known_hits {
        if let Some(k) = known.get(sig) {
            println!("KNOWN-FINDING: property={} {} [{}; observed in {} case(s)]", id, k.what, sig, hit.count);
        }
    }
    for (sig, msg, p) in &violation_lines {
        println!("failure {sig}: {}", msg.lines().take(12).collect::<Vec<_>>().join(" | "));
        println!("VIOLATION property={} replay={}", id, p.display());
    }
    if !violation_lines.is_empty() {
        return 1;
    }
    if !inconclusive.is_empty() {
        for m in &inconclusive {
            println!("INCONCLUSIVE: {m}");
        }
        return 2;
    }
    0
}

// ---------------------------------------------------------------------------------------------
// coverage-guided driver (libFuzzer): bytes -> slotted tape -> the same run_case and oracle

/// Bytes are cut into fixed-width slots of `max_tape` little-endian u32 words: slot 0 is the
/// header, every further chunk one operation. A short last chunk is a short slot.
pub fn tape_from_fuzz_bytes(data: &[u8], max_tape: usize) -> Tape {
    let w = max_tape.max(1) * 4;
    let slots: Vec<Vec<u32>> = data
        .chunks(w)
        .map(|chunk| {
            chunk
                .chunks(4)
                .map(|c| {
                    let mut b = [0u8; 4];
                    b[..c.len()].copy_from_slice(c);
                    u32::from_le_bytes(b)
                })
                .collect()
        })
        .collect();
    Tape::new_slots(slots)
}

/// Inverse of `tape_from_fuzz_bytes` (slots longer than `max_tape` are cut, shorter ones are
/// zero-padded, which reads the same).
pub fn fuzz_bytes_from_slots(slots: &[Vec<u32>], max_tape: usize) -> Vec<u8> {
    let mut out = Vec::new();
    for s in slots {
        for i in 0..max_tape.max(1) {
            out.extend_from_slice(&s.get(i).copied().unwrap_or(0).to_le_bytes());
        }
    }
    out
}

pub struct FuzzCtx {
    pub env: Env,
    pub plan: Plan,
    pub execs: u64,
    pub nontrivial: HashSet<u64>,
    pub known_hits: BTreeMap<String, u64>,
}

impl FuzzCtx {
    pub fn new(check: &dyn Check) -> FuzzCtx {
        install_panic_hook();
        raise_fd_limit();
        let seed = seed_from_env();
        let hint = std::env::var("VERIF_FUZZ_HINT").ok().and_then(|s| s.parse().ok());
        FuzzCtx { env: Env { tier: Tier::Thorough, seed, strict: false, known: Known::load(), shard: 0, hint }, plan: check.plan(Tier::Thorough), execs: 0, nontrivial: HashSet::new(), known_hits: BTreeMap::new() }
    }

    /// One libFuzzer execution. Returns the replay path when the case violates the property
    /// with a signature that is not a listed known finding; the caller aborts the process so
    /// that libFuzzer keeps the input as an artifact.
    pub fn one(&mut self, check: &dyn Check, data: &[u8]) -> Option<PathBuf> {
        if open_fds() > FD_PRESSURE {
            // leaked descriptors of earlier executions: stop this process cleanly, the
            // campaign driver starts the next one from the saved corpus
            self.finish(check);
            std::process::exit(0);
        }
        let mut tape = tape_from_fuzz_bytes(data, self.plan.max_tape);
        if tape.slots().len() > self.plan.max_slots.max(1) + 1 {
            return None;
        }
        let out = exec_case(check, &mut tape, &self.env);
        self.execs += 1;
        if self.execs % 100 == 0 {
            self.finish(check);
        }
        if out.nontrivial {
            self.nontrivial.insert(out.fingerprint ^ fnv1a(data));
        }
        for f in &out.failures {
            if self.env.known.has(&f.signature) {
                *self.known_hits.entry(f.signature.clone()).or_insert(0) += 1;
                continue;
            }
            let rec = ViolationRec { signature: f.signature.clone(), message: f.message.clone(), tape: Some(tape.slots().clone()), params: None, sample: out.sample.clone(), hint: out.hint.or(self.env.hint) };
            let path = write_replay(check.id(), self.env.seed, &rec);
            println!("failure {}: {}", f.signature, f.message);
            println!("VIOLATION property={} replay={}", check.id(), path.display());
            self.finish(check);
            return Some(path);
        }
        None
    }

    /// Writes this process's counters to `<VERIF_FUZZ_STATS>.<pid>` (overwritten as the
    /// campaign goes; merged into the evidence by the campaign driver).
    pub fn finish(&self, check: &dyn Check) {
        if let Ok(p) = std::env::var("VERIF_FUZZ_STATS") {
            let _ = std::fs::write(format!("{p}.{}", std::process::id()), json!({"id": check.id(), "execs": self.execs, "nontrivial": self.nontrivial.len(), "known_hits": self.known_hits}).to_string());
        }
    }
}

/// `<bin> --emit-fuzz-corpus <ID> <dir> [n]`: the committed corpus of the check plus `n` seeded
/// random tapes, as libFuzzer input files.
pub fn emit_fuzz_corpus(check: &dyn Check, dir: &Path, n: usize) -> std::io::Result<usize> {
    std::fs::create_dir_all(dir)?;
    let plan = check.plan(Tier::Thorough);
    let mut k = 0;
    for f in corpus_files(check.id()) {
        let Ok(s) = std::fs::read_to_string(&f) else { continue };
        let Ok(v) = serde_json::from_str::<Value>(&s) else { continue };
        if let Some(slots) = v.get("tape").and_then(parse_tape) {
            std::fs::write(dir.join(format!("corpus-{k:03}")), fuzz_bytes_from_slots(&slots, plan.max_tape))?;
            k += 1;
        }
    }
    let mut x = mix(seed_from_env(), fnv1a(check.id().as_bytes()));
    for i in 0..n {
        let slots_n = plan.min_slots + (mix(x, 1) as usize) % (plan.max_slots.saturating_sub(plan.min_slots) + 1);
        let mut slots = Vec::new();
        for si in 0..slots_n {
            let len = 1 + (mix(x, 2 + si as u64) as usize) % plan.max_tape.max(1);
            slots.push((0..len).map(|j| mix(x, ((si as u64) << 16) | j as u64) as u32).collect::<Vec<u32>>());
        }
        std::fs::write(dir.join(format!("seeded-{i:03}")), fuzz_bytes_from_slots(&slots, plan.max_tape))?;
        x = mix(x, 0x9E37);
        k += 1;
    }
    Ok(k)
}
