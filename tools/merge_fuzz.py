#!/usr/bin/env python3
"""Append the coverage-guided stage's measurements to evidence/<ID>.json (written by the seeded stage)."""
import glob, json, sys
id_, status, stats, execs, cov, wall = sys.argv[1], sys.argv[2], sys.argv[3], int(sys.argv[4]), int(sys.argv[5]), int(sys.argv[6])
path = f"/verif/evidence/{id_}.json"
try:
    ev = json.load(open(path))
except Exception:
    sys.exit(0)
fz = {"engine": "libFuzzer (cargo-fuzz, nightly), target vstore_case: input bytes = slotted choice tape, same generator/interpreter/oracle as the seeded stage", "status": status}
if status == "ran":
    oracle_execs = nontrivial = 0
    known = {}
    try:
        for f in glob.glob(stats + ".*"):
            d = json.load(open(f))
            oracle_execs += d.get("execs", 0)
            nontrivial += d.get("nontrivial", 0)
            for k, v in d.get("known_hits", {}).items():
                known[k] = known.get(k, 0) + v
    except Exception:
        pass
    fz.update({"executions": execs, "oracle_evaluations_reported_by_target": oracle_execs, "nontrivial_by_rule_summed_over_processes": nontrivial, "edges_covered_max": cov, "known_findings_observed": known, "wall_s": wall})
ev.setdefault("coverage", {})["fuzz"] = fz
json.dump(ev, open(path, "w"), indent=1)
