#!/bin/bash
# Sensitivity probe: temporarily reverts one fix commit in /repo's working tree, runs a check,
# keeps the shrunk replay as a regression input, and restores the tree.
#   tools/revert_probe.sh <commit> <ID> <name> [tier]
set -u
commit="$1"; id="$2"; name="$3"; tier="${4:-quick}"
cd /repo || exit 2
if ! git diff --quiet; then echo "/repo has uncommitted changes"; exit 2; fi
if ! git show "$commit" | git apply -R 2>/dev/null; then
  # later commits touched the same lines: let git do a 3-way revert (no commit is made)
  git revert -n --no-edit "$commit" >/dev/null 2>&1 || { echo "cannot revert $commit"; git reset --hard -q HEAD; exit 2; }
fi
trap 'git -C /repo reset --hard -q HEAD' EXIT
cd /verif
rm -f replays/${id}-*.json
start=$(date +%s)
./check "$id" "$tier" > /tmp/revert_probe.out 2>&1
rc=$?
end=$(date +%s)
grep -E "^(failure|VIOLATION|$id )" /tmp/revert_probe.out | cut -c1-400
echo "exit=$rc after $((end-start))s"
mkdir -p corpus/$id
n=0
for f in replays/${id}-*.json; do
  [ -f "$f" ] || continue
  n=$((n+1))
  cp "$f" "corpus/$id/fixed-$name-$n.json"
  echo "saved corpus/$id/fixed-$name-$n.json"
done
