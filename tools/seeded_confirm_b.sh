#!/bin/bash
# Phase B: run the quick tier of the given checks against /repo with seeded/<ID>/patch.diff applied,
# append to seeded/<ID>/confirm.log, keep the shrunk replays in corpus/, restore /repo.
#   tools/seeded_confirm_b.sh <ID[-r2]> [check ids, default: the property itself]
set -u
id="$1"; shift
checks=("$@"); [ ${#checks[@]} -eq 0 ] && checks=("${id%%-*}")
dst=/verif/seeded/$id; res="$dst/confirm.log"
say() { echo "$@" | tee -a "$res"; }
cd /repo || exit 2
if ! git diff --quiet; then echo "/repo has uncommitted changes"; exit 2; fi
trap 'cd /repo && git checkout -q -- . && git clean -fdq crates tests 2>/dev/null' EXIT
git apply "$dst/patch.diff" || exit 2
cd /verif
for c in "${checks[@]}"; do
  rm -f replays/${c}-*.json
  start=$(date +%s)
  ./check "$c" quick > /tmp/seeded_check.out 2>&1; rc=$?
  end=$(date +%s)
  say "check $c quick on the patched tree: exit $rc after $((end-start))s"
  grep -E "^(failure|VIOLATION|INCONCLUSIVE|BUILD)" /tmp/seeded_check.out | cut -c1-400 | head -6 | tee -a "$res"
  mkdir -p corpus/$c
  n=0
  for f in replays/${c}-*.json; do
    [ -f "$f" ] || continue
    case "$f" in *-inflight-*) continue;; esac
    n=$((n+1)); cp "$f" "corpus/$c/seeded-$id-$n.json"; say "saved corpus/$c/seeded-$id-$n.json"
  done
done
