#!/bin/bash
# Phase A of a seeded-change confirmation, run in the sub-agent's scratch worktree (parallelisable):
#   tools/seeded_confirm_a.sh <ID[-r2]> <worktree>
# copies <worktree>/OUT to /verif/seeded/<ID>/, then in the worktree: pristine tree -> demo passes,
# patch applies, workspace builds, demo fails, the pinned suite (hooks off) passes with the patch.
# Phase B (tools/seeded_confirm_b.sh) runs the checks against /repo with the patch applied.
set -u
id="$1"; wt="$2"
dst=/verif/seeded/$id
mkdir -p "$dst"
cp "$wt/OUT/patch.diff" "$dst/patch.diff" || exit 2
rm -rf "$dst/demo"; cp -r "$wt/OUT/demo" "$dst/demo"
cp "$wt/OUT/meta.json" "$dst/agent_meta.json" 2>/dev/null
export CARGO_NET_OFFLINE=true CARGO_TARGET_DIR="$wt/target"
cd "$wt" || exit 2
git checkout -q -- . ; git clean -fdq crates tests 2>/dev/null
res="$dst/confirm.log"; : > "$res"
say() { echo "$@" | tee -a "$res"; }
git apply --check "$dst/patch.diff" || { say "PATCH DOES NOT APPLY"; exit 1; }
demo_file="$dst/demo/seeded_demo.rs"; [ -f "$demo_file" ] || demo_file=$(ls "$dst"/demo/*.rs 2>/dev/null | head -1)
crate=$(grep -m1 '^+++ b/crates/' "$dst/patch.diff" | sed 's#^+++ b/crates/\([^/]*\)/.*#\1#')
mc=$(python3 -c "import json,sys;print(json.load(open(sys.argv[1])).get('demo_crate',''))" "$dst/agent_meta.json" 2>/dev/null)
demo_crate="${DEMO_CRATE:-${mc:-$crate}}"
out=/tmp/seeded_a_$id
run_demo() {
  [ -n "$demo_file" ] || return 99
  mkdir -p "crates/$demo_crate/tests"
  cp "$demo_file" "crates/$demo_crate/tests/seeded_demo.rs"
  timeout 1800 cargo test -p "$demo_crate" --offline --test seeded_demo ${DEMO_ARGS:-} > $out.demo 2>&1
  local rc=$?
  rm -f "crates/$demo_crate/tests/seeded_demo.rs"
  return $rc
}
run_demo; d0=$?
say "confirmed in scratch worktree $wt (phase A), checks against /repo (phase B)"
say "demo on the unchanged tree: exit $d0 ($(grep -E '^test result' $out.demo | tail -1))"
git apply "$dst/patch.diff"
if ! cargo build --workspace --offline > $out.build 2>&1; then say "WORKSPACE DOES NOT BUILD WITH THE PATCH"; tail -5 $out.build; exit 1; fi
say "workspace builds with the patch"
run_demo; d1=$?
say "demo on the patched tree: exit $d1 ($(grep -E '^test result|panicked at' $out.demo | tail -2 | tr '\n' ' '))"
timeout 3000 cargo nextest run --workspace --no-fail-fast --tool-config-file pb:/w/lib/nextest.toml --profile pb --test-threads 8 --offline > $out.suite 2>&1
say "existing suite with the patch: $(grep -E 'Summary|tests run' $out.suite | tail -1)"
grep -E '^\s+(FAIL|TIMEOUT|SIGABRT|SIGSEGV)' $out.suite | sort -u | head -12 | tee -a "$res"
git checkout -q -- . ; git clean -fdq crates tests 2>/dev/null
rm -rf "$wt/target"
say "phase A done"
