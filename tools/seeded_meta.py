#!/usr/bin/env python3
"""Build /verif/seeded/<ID>/meta.json from the agent's meta and the confirmation log, and print
the summary table used in DESIGN.md §10.8."""
import glob, json, os, re, sys

rows = []
for d in sorted(glob.glob("/verif/seeded/C*")):
    pid = os.path.basename(d)
    log = open(os.path.join(d, "confirm.log")).read() if os.path.exists(os.path.join(d, "confirm.log")) else ""
    try:
        agent = json.load(open(os.path.join(d, "agent_meta.json")))
    except Exception:
        agent = {}
    m = re.search(r"demo on the unchanged tree: exit (\d+)", log)
    demo_clean = int(m.group(1)) if m else None
    m = re.search(r"demo on the patched tree: exit (\d+)", log)
    demo_patched = int(m.group(1)) if m else None
    m = re.search(r"existing suite with the patch:\s*(.*)", log)
    suite = m.group(1).strip() if m else ""
    failed_tests = re.findall(r"FAIL \[[^\]]*\] \([^)]*\) (\S+ \S+)", log)
    checks = {}
    for c, rc, secs in re.findall(r"check (C\d+) quick on the patched tree: exit (\d+) after (\d+)s", log):
        checks[c] = {"exit": int(rc), "seconds": int(secs)}
    sigs = re.findall(r"^failure (\S+):", log, re.M)
    meta = {
        "property": pid.split("-")[0],
        "round": 2 if pid.endswith("-r2") else 1,
        "source": "independent sub-agent given only the property record and a scratch worktree",
        "files_touched": agent.get("files_touched"),
        "what_changed": agent.get("what_changed"),
        "why_it_breaks_the_property": agent.get("why_it_breaks_the_property"),
        "trigger": agent.get("trigger"),
        "confirmed_here": {
            "patch_applies_and_workspace_builds": "workspace builds with the patch" in log,
            "existing_suite_with_patch": suite,
            "existing_suite_failures": failed_tests,
            "demo_exit_unchanged_tree": demo_clean,
            "demo_exit_patched_tree": demo_patched,
        },
        "checks_run_against_it": checks,
        "failure_signatures_reported": sorted(set(sigs)),
        "caught_by": sorted(c for c, v in checks.items() if v["exit"] == 1),
    }
    json.dump(meta, open(os.path.join(d, "meta.json"), "w"), indent=1)
    rows.append((pid, (agent.get("what_changed") or "")[:110].replace("\n", " "), ", ".join(meta["caught_by"]) or "NOT CAUGHT", "; ".join(sorted(set(sigs)))[:120]))

for r in rows:
    print("| %s | %s | %s | %s |" % r)
