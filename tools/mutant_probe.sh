#!/bin/bash
# Apply a mutant patch to /repo, run checks, restore.   tools/mutant_probe.sh <patch> <ID> [<ID>...]
set -u
patch="$(realpath "$1")"; shift
cd /repo || exit 2
if ! git diff --quiet; then echo "/repo has uncommitted changes"; exit 2; fi
git apply "$patch" || { echo "patch does not apply"; exit 2; }
trap 'git -C /repo checkout -- . ; git -C /repo clean -fdq crates tests 2>/dev/null' EXIT
cd /verif
for id in "$@"; do
  start=$(date +%s)
  ./check "$id" quick > /tmp/mutant_probe.out 2>&1
  rc=$?
  end=$(date +%s)
  grep -E "^(failure|VIOLATION|INCONCLUSIVE|BUILD|$id )" /tmp/mutant_probe.out | cut -c1-300 | head -8
  echo "== $id exit=$rc after $((end-start))s"
done
