#!/bin/bash
# Confirms one sub-agent-produced property-breaking change and measures which checks catch it.
#   tools/seeded_confirm.sh <ID> <worktree OUT dir> [check ids to run, default: the ID itself]
# Steps: copy OUT -> /verif/seeded/<ID>/, patch applies to /repo, workspace builds, the existing
# suite passes with it (nextest, hooks off), the demo passes without and fails with the patch,
# then every listed check's quick tier is run against the patched tree. /repo is restored.
set -u
id="$1"; out="$2"; shift 2
checks=("$@"); [ ${#checks[@]} -eq 0 ] && checks=("${id%%-*}")   # id may be C03 or C03-r2 (second round)
dst=/verif/seeded/$id
mkdir -p "$dst"
cp "$out/patch.diff" "$dst/patch.diff" || exit 2
rm -rf "$dst/demo"; cp -r "$out/demo" "$dst/demo"
cp "$out/meta.json" "$dst/agent_meta.json" 2>/dev/null
cd /repo || exit 2
if ! git diff --quiet; then echo "/repo has uncommitted changes"; exit 2; fi
trap 'cd /repo && git checkout -q -- . && git clean -fdq crates tests 2>/dev/null' EXIT
res="$dst/confirm.log"; : > "$res"
say() { echo "$@" | tee -a "$res"; }
git apply --check "$dst/patch.diff" || { say "PATCH DOES NOT APPLY"; exit 1; }
demo_file="$dst/demo/seeded_demo.rs"; [ -f "$demo_file" ] || demo_file=$(ls "$dst"/demo/*.rs 2>/dev/null | head -1)
crate=$(grep -m1 '^+++ b/crates/' "$dst/patch.diff" | sed 's#^+++ b/crates/\([^/]*\)/.*#\1#')
mc=$(python3 -c "import json,sys;print(json.load(open(sys.argv[1])).get('demo_crate',''))" "$dst/agent_meta.json" 2>/dev/null)
demo_crate="${DEMO_CRATE:-${mc:-$crate}}"
run_demo() {
  # returns the demo's exit status; the demo is a cargo integration test placed in crates/<crate>/tests/
  [ -n "$demo_file" ] || return 99
  mkdir -p "crates/$demo_crate/tests"
  cp "$demo_file" "crates/$demo_crate/tests/seeded_demo.rs"
  timeout 1800 cargo test -p "$demo_crate" --offline --test seeded_demo ${DEMO_ARGS:-} > /tmp/seeded_demo.out 2>&1
  local rc=$?
  rm -f "crates/$demo_crate/tests/seeded_demo.rs"
  return $rc
}
run_demo; d0=$?
say "demo on the unchanged tree: exit $d0 ($(grep -E '^test result' /tmp/seeded_demo.out | tail -1))"
git apply "$dst/patch.diff"
if ! cargo build --workspace --offline > /tmp/seeded_build.out 2>&1; then say "WORKSPACE DOES NOT BUILD WITH THE PATCH"; tail -5 /tmp/seeded_build.out; exit 1; fi
say "workspace builds with the patch"
run_demo; d1=$?
say "demo on the patched tree: exit $d1 ($(grep -E '^test result|panicked at' /tmp/seeded_demo.out | tail -2 | tr '\n' ' '))"
# existing suite, hooks off (the pinned baseline command)
timeout 3000 cargo nextest run --workspace --no-fail-fast --tool-config-file pb:/w/lib/nextest.toml --profile pb --test-threads 8 --offline > /tmp/seeded_suite.out 2>&1
say "existing suite with the patch: $(grep -E 'Summary|tests run' /tmp/seeded_suite.out | tail -1)"
grep -E '^\s+(FAIL|TIMEOUT|SIGABRT|SIGSEGV)' /tmp/seeded_suite.out | sort -u | head -12 | tee -a "$res"
cd /verif
for c in "${checks[@]}"; do
  rm -f replays/${c}-*.json
  start=$(date +%s)
  ./check "$c" quick > /tmp/seeded_check.out 2>&1; rc=$?
  end=$(date +%s)
  say "check $c quick on the patched tree: exit $rc after $((end-start))s"
  grep -E "^(failure|VIOLATION|INCONCLUSIVE|BUILD)" /tmp/seeded_check.out | cut -c1-400 | head -6 | tee -a "$res"
  mkdir -p corpus/$c
  n=0
  for f in replays/${c}-*.json; do
    [ -f "$f" ] || continue
    case "$f" in *-inflight-*) continue;; esac
    n=$((n+1)); cp "$f" "corpus/$c/seeded-$id-$n.json"; say "saved corpus/$c/seeded-$id-$n.json"
  done
done
