#!/usr/bin/env python3
"""Regenerates /verif/MANIFEST.json from the table below (single source of truth)."""
import json, subprocess

HOOK_COMMITS = subprocess.run(
    ["git", "-C", "/repo", "log", "--format=%h %s", "--grep=^verif hook"],
    capture_output=True, text=True).stdout.strip().splitlines()

# id -> (level category, level text, level note, technique, design ref)
CHECKS = {}
def add(i, cat, text, note, tech, ref):
    CHECKS[i] = dict(cat=cat, text=text, note=note, tech=tech, ref=ref)

add("C23", "exploration",
    "All 2^16 partition hashes are enumerated (ids from the repo generator and from harness-built bit patterns) for hash round-trip/validation; the flag functions and the routing relations are checked on tens of thousands of seeded, shrinkable tape cases (arbitrary 128-bit patterns, partitions>=buckets). Exhaustive over hashes, sampled over random bits and (partitions,buckets).",
    "Trusts the harness's reading of the documented id layout; routing domain is partitions>=buckets>=1 as accepted by AppConfig::validate.",
    "property-based testing (proptest-driven choice tape) + exhaustive hash enumeration, round-trip and differential oracles", "§4 C23")
add("C25", "exploration",
    "gap_from/is_satisfied_by are compared with an i128 signed-distance model over the complete boundary grid and over seeded random pairs across the u64 range; is_satisfied_by is additionally checked differentially against the real writer (generated append histories with stream and partition expectations); Display/FromStr and from/into_next_version round-trip on their domains.",
    "Reference = i128 model written from the doc comments; database differential reaches only small current versions (reachable by appending).",
    "property-based testing with model + differential (real database) + round-trip oracles", "§4 C25")

add("C17", "fault_enumeration",
    "Generated records (header sizes 0/1/8/16/32, sizes across every buffer and compression threshold, three content classes, compression per record) are round-tripped through every read path; then for one target record per case every single bit (records <= 4 KiB; head + sampled + buffer-edge bits otherwise), 2-32 bit bursts at every head position and sampled body positions, and every truncation length are applied and every read path must reject or return the original bytes; Writer::open must resume at the damaged record.",
    "Faults are enumerated per generated record, not for all records; large records are sampled in the body. CRC collision probability (2^-32) is accepted as a source of a (never yet seen) spurious report.",
    "property-based generation of records + exhaustive fault enumeration (bit flips, bursts, truncations) with a round-trip oracle", "§4 C17")
add("C18", "exploration",
    "Stateful model-based testing of one shared segment: generated histories of append / flush_writer / sync / set_len / replace_header interleaved with random and sequential reads and iteration through 1-4 long-lived readers (and clones) that share the writer's FlushedOffset, compared after every read with a model of the flushed prefix.",
    "Single-threaded interleavings (the harness owns the schedule between operations); true data races inside one operation are out of reach.",
    "stateful property-based testing against a reference model (flushed-prefix log)", "§4 C18")

STORE_NOTE = "Oracle = in-memory reference event store written from the property statements; generators stay inside what callers produce (partition id = key hash % partitions). Histories are single-client (plus batches of concurrently submitted appends); see C15/C16/C20 for real concurrency."
add("C01", "exploration",
    "Model-based stateful testing of the embedded database: generated configurations and histories (appends incl. failing multi-event ones, batches, rollovers, reopens). Immediately after every acknowledgement the fsync ledger (hook H1) must cover the transaction and event lookup / transaction lookup / stream scan / partition scan must return every event field-for-field; the same for every acknowledged transaction after each reopen and at the end. In half of the cases every reopen also opens and audits a snapshot of the directory taken at the moment Database::shutdown() returns (what a process that exits then leaves behind), with the background index flush delayed through hook H6.",
    STORE_NOTE + " The fsync ledger trusts seglog::Writer to report what it fsynced.",
    "stateful property-based testing against a reference model + fsync-ledger invariant (hook)", "§4 C01")
add("C02", "exploration",
    "Same interpreter: every append's accept/reject decision, assigned partition sequences and stream versions, and get_stream_version/get_partition_sequence are compared with the model across unsynced (batch), open-index, sealed-index and post-reopen states.",
    STORE_NOTE + " Which error is reported is not modelled.",
    "stateful property-based testing against a reference model", "§4 C02")
add("C03", "exploration",
    "Same interpreter with scan-heavy histories: forward scans must equal the model exactly; reverse scans must cover every event at or before the start with transaction-suffix groups in strictly decreasing order; all start positions (0, existing, end, beyond, u64::MAX), batch sizes 1-60, open/sealed segments, after reopen; full audit of every stream and partition in both directions.",
    STORE_NOTE + " Inside a reverse group, events of the same transaction above the start position are tolerated (groups are transaction suffixes).",
    "stateful property-based testing against a reference model (exactness + order + grouping oracles)", "§4 C03")
add("C19", "exploration",
    "Same interpreter plus boundary appends whose estimated size lands on/around the free space of the live segment with compressible and incompressible payloads, compression on/off: a transaction that fits an empty segment must never be rejected for lack of space; a rejected one is retried three times.",
    STORE_NOTE + " 'Fits an empty segment' is judged by the uncompressed estimate the writer itself uses.",
    "stateful property-based testing with boundary-targeted generation", "§4 C19")

add("C04", "exploration",
    "Three generated case kinds judged by one oracle (every group any read API returns is one committed model transaction: complete for lookups and partition scans from 0, an in-order suffix after the stream filter for scans): histories rich in multi-event appends that fail behind their first event; crash states with uncommitted bytes on disk (the C05 splice) followed by lookups of the orphan ids and all scans, before and after a further append; and two concurrent reader tasks running against 6-20 multi-event appends (sound under any interleaving).",
    "Concurrent interleavings are sampled (real threads), not enumerated. Read errors after a crash are judged by C05.",
    "stateful property-based testing + crash-state enumeration + concurrent stress with an interleaving-independent oracle", "§4 C04")
add("C05", "fault_enumeration",
    "For each generated base history (acknowledged, cleanly shut down) a tail of 1-3 transactions is appended by the real writer in a copy and its exact bytes are spliced back prefix by prefix: every record boundary +-1, head-only cuts, the event/commit boundary and sampled interior cuts (every byte for tails under 1 KiB in the thorough tier). Each crash state must open, equal the model for the committed prefix under the full audit, continue sequences/versions without gap or reuse, and survive a second reopen.",
    "Process-crash model: a prefix of the written bytes survives (no reordering). Tails that roll over are not cut. The expected prefix accounts for bytes the base state already holds (pre-allocated zeros or leftovers of failed appends).",
    "crash-point enumeration over generated histories with a reference-model oracle", "§4 C05")
add("C06", "fault_enumeration",
    "For generated histories with rollovers, the three index files of a sealed segment are put into crash states (empty, header only, prefix inside MPHF / records / values, all but one byte, complete) in tape-chosen combinations (and every single-file state per file in the thorough tier); the database must reopen and pass the full audit. Every case first opens the control (all three files complete), which must pass; damaged states currently fail and are listed as known findings by symptom (open fails when an index file is truncated / reads fail / scans silently skip events) - any other way of failing has its own signature and is reported.",
    "Index prefixes are sampled, not every byte. The sealed data file is assumed complete (fsynced before rollover).",
    "fault enumeration over index-file states with a reference-model oracle", "§4 C06")

add("C15", "exploration",
    "Two case kinds. (1) Harness-owned schedule: pause hooks (H2) inside WriterSet::rollover stop the writer thread after the live-index swap, after the sealed segment is installed and at the end; at each stop the harness runs version/sequence queries, event lookups and full stream/partition scans for everything acknowledged so far. (2) Real-thread stress: appenders publish acknowledgements, readers snapshot the published set before each round and must observe at least it (read-after-ack) and never less than before (monotone), with 128 KiB segments so rollovers overlap reads.",
    "Only the rollover window is schedule-owned; other interleavings are sampled by the OS scheduler. Oracles are sound under any interleaving.",
    "property-based generation of histories + harness-owned schedule points (hook) + concurrent stress with interleaving-independent oracles", "§4 C15")
add("C16", "exploration",
    "4-16 concurrent client tasks race optimistic (read-then-Exact), Empty, Any and stale-Exact appends over shared streams on generated bucket/writer-thread configurations; the logged history must be explained by the serial order of assigned sequences (gapless, every expectation holds at its turn, versions as in the model), failures are only flagged when the log proves them unjustified, and the final database must pass the full audit against the replayed model.",
    "Interleavings are sampled by the scheduler; the oracle is schedule-independent (linearisability-style check by assigned sequence).",
    "concurrent property-based testing with a history-checking (serialisability) oracle", "§4 C16")
add("C20", "exploration",
    "Generated sync configurations (interval 0-50 ms, idle, batch, min-sync-bytes from tiny to huge) and 1-16 clients issuing small/large/multi-event/failing appends with rollovers; every append future must resolve within 20*max(interval, idle)+3 s, and a miss only counts when the future is still pending after a further full bound with no new traffic.",
    "Bounded-liveness only (no proof of termination); healthy tmpfs disk; watchdog hits are inconclusive.",
    "concurrent property-based testing with a bounded-wait (confirmed twice) oracle", "§4 C20")

add("C24", "exploration",
    "distribute_partition is evaluated on the full grid of partition counts 0..=65535 x rf {0..=13,255} x 24 boundary hashes in the quick tier and on the entire 2^16 x 2^16 (hash, partition count) space at rf=255 in the thorough tier, plus seeded random triples: length, first element, range, distinctness, emptiness for zero inputs, determinism and the prefix relation between replication factors.",
    "Thorough tier is exhaustive over (hash, n) at rf=255 and over rf for the boundary hashes; rf and the prefix relation are not crossed with all 2^16 hashes.",
    "exhaustive enumeration + property-based testing with algebraic oracles (validity predicates, prefix/metamorphic relation)", "§4 C24")
add("C13", "exploration",
    "Every configuration accepted by AppConfig::validate with 1-6 nodes, 1-8 buckets, 1-16 partitions and rf up to the node count is enumerated for every node index, and sampled configurations up to 300 nodes / 65535 partitions: the partitions of the buckets a node opens must equal the partitions its TopologyManager claims, and every node a partition is routed to (all members known) must store the partition's bucket.",
    "bucket.ids / partition.ids overrides are not exercised. For clusters above 48 nodes the per-node comparison is done for a sample of indices; the routing check covers all nodes.",
    "exhaustive small-scope enumeration + property-based sampling with a differential oracle (server placement vs topology routing)", "§4 C13")
add("C14", "exploration",
    "Static: for node counts 1-20, 255, 256, 257, 300, 1000 and grids of bucket/partition counts and rf 1-12 the owners of every partition over all node indices must be exactly min(rf, N) distinct nodes and equal the replica set. Dynamic: 2-5 TopologyManager instances are driven by generated membership histories (requests with responses delivered to chosen nodes now or later, heartbeats, disconnects, timeouts; equal and different alive_since); after every step any two managers with equal active_nodes must have equal replica sets and equal coordinator order for every partition.",
    "Managers are driven directly (no libp2p transport); ownership responses are rebuilt exactly as on_node_connected builds them because the message type is crate-private.",
    "enumeration + stateful property-based testing with a pairwise-agreement invariant", "§4 C14")
add("C26", "exploration",
    "The breaker is driven by 1-3 real threads under a harness-owned schedule: hook H4 replaces its clock and doubles as the yield point, and adds named scheduling points after each state change inside a transition, so the tape decides every thread switch (before each operation, at each clock read, and - in half of the cases - between two atomic steps of a transition) and every clock advance. Oracles: no panic; a Closed->Open step needs at least failure_threshold record_failure calls that can have taken effect after the begin of the latest completed record_success (operations may take effect anywhere inside their interval; the most permissive placement is used, so no legal linearisation is reported); per half-open episode at most half_open_max_calls admissions, counting the call that performs the Open->HalfOpen transition.",
    "Schedules of 1-3 threads and up to 40 operations. Two violations that need a switch between two atomic steps are listed known findings (signature suffix needs-switch-between-atomic-steps); violations reachable with coarser switches keep the plain signature and are reported.",
    "property-based testing over harness-owned thread schedules (deterministic, shrinkable interleavings) with invariant oracles", "§4 C26, §10.4")

add("C21", "exploration",
    "Grammar-based generation of every documented command form (optional clauses in any allowed order, 1-4 streams/partitions/events, keyword case, boundary identifiers and numbers, every string/number frame variant) together with the request each denotes; the real command builders of sierradb-client executed against a capturing connection; and single-mutation near misses (missing value, malformed value, duplicated clause, trailing token, wrong frame type). The server's own parsers must return exactly the denoted request, respectively an error.",
    "The async SubscriptionManager builders are not captured (sync/typed command builders are). Keyword-named stream ids are generated only in positional slots.",
    "grammar-based property-based testing with a denotational (expected request) oracle, differential client-vs-server check, mutation-based negative cases", "§4 C21")

NODE_NOTE = "One in-process ClusterActor per worker process (kameo's swarm is process-global), node_count = 1 with replication factor 1-5 fixed per worker; the database is swapped per case with the repo's ResetCluster message. No network, no second node."
add("C07", "exploration",
    "Generated partition histories with arbitrary per-transaction confirmation counts around the quorum are written directly to disk; the real cluster node recomputes its watermarks from them and is then queried (ReadEvent, ReadPartition, ReadStream with boundary-biased ranges and counts, GetStreamVersion, GetPartitionSequence, lookups around every watermark). Nothing at or above the model watermark may be revealed.",
    NODE_NOTE + " Completeness of answers is judged under C22, not here.",
    "property-based testing of the real node against a reference watermark model (non-exposure invariant)", "§4 C07")
add("C08", "exploration",
    "PartitionConfirmationState is driven with generated report multisets (duplicates, stale lower counts, permutations, any replication factor) against the statement's three clauses (monotone, never above the quorum-confirmed prefix of maximum reported counts, equal to it once everything is delivered); and every intermediate disk state of BucketConfirmationManager's temp-write/rename persistence is constructed on real files and re-initialised against the database.",
    "Crash states are constructed from the two complete state files (old and new) rather than by killing a process; on-disk confirmation counts are assumed to precede the report (as the protocol orders them).",
    "property-based testing (order/duplication of reports) + crash-state enumeration of the persistence sequence", "§4 C08")

add("C12", "exploration",
    "A generated coordinator log (single and multi-event transactions with assigned sequence ranges) is delivered to the real node, acting as replica, through its ReplicateWrite message in tape-chosen orders with duplicates, conflicting transactions at occupied sequences and transactions keyed inside a multi-event range; asks are enqueued in schedule order and awaited concurrently. The replica's partition log must always be a prefix of the coordinator log, end as exactly the longest fully delivered prefix, never apply a conflicting write, leave no ask pending below its next sequence, and keep answering afterwards.",
    NODE_NOTE + " The node's own remote ref plays the coordinator; buffer overflow/eviction (1000 entries after ResetCluster) is not reached.",
    "stateful property-based testing of delivery schedules against a prefix invariant", "§4 C12")
add("C22", "exploration",
    "Generated command histories (EAPPEND, EMAPPEND, EGET, ESCAN, EPSCAN incl. paging, ESVER, EPSEQ, malformed requests, ESUB/EACK) are sent over TCP to the real RESP server in front of the in-process node (rf 1; strict versioning on/off per worker) and every reply is compared with a reference event-store model: versions and sequences of appends, event contents, inclusive ranges, has_more never false while matching events remain, errors (connection still usable) for invalid requests, read-after-acknowledgement.",
    NODE_NOTE + " has_more = true with nothing left in the requested range is not judged (the server defines it as 'the stream continues').",
    "stateful property-based testing of the wire API against a reference model", "§4 C22")

add("C09", "exploration",
    "Generated per-partition histories with a confirmed prefix are handed to the real node; one subscription per case (partition, several partitions, all partitions, stream, several streams; no start position, 0, middle, at and beyond the confirmed end; window 1-1000) is driven by tape-ordered confirmations (in and out of order), appends, acknowledgements, receives, bursts larger than the broadcast channel, and - through hook H3 - confirmations injected while a history read is parked between two batches. The delivered sequence must have consecutive cursors, per partition/stream positions increasing by exactly one from the start, only events inside the harness's own confirmed prefix, at most `window` unacknowledged deliveries, and after quiescence everything confirmed from an explicit start position.",
    NODE_NOTE + " The history/live hand-over is schedule-owned only at batch boundaries (H3); the remaining interleavings (confirmation actor vs. subscription task) are sampled by the runtime, with schedule-independent oracles. 'Eventually delivered' is judged 3 s after the last operation (60 s after a burst).",
    "stateful property-based testing with hook-owned schedule points and order/gap/window/completeness invariants", "§4 C09")

MULTI_TEXT = "A cluster of three real node processes on loopback (the server's start-up sequence, formed through hook H5) is driven over RESP by a tape-generated schedule of single/multi-event appends through chosen nodes (awaited or in flight), the same key written through all nodes at once, SIGSTOP pauses of 0.2-3 s (missed heartbeats, divergent membership views, late replies) and SIGKILL with restart on the same directory; afterwards all processes are killed and every node's directory is opened offline and dumped as (partition, sequence) -> (transaction, event id, confirmation count). "
MULTI_NOTE = "Process-level faults only (no per-message drop/duplicate/reorder); SIGKILL keeps written data (disks survive, memory is lost). Timing is owned by the OS, so replays are best-effort; both oracles are invariants over the final disks and cannot be falsified by timing. Tens of cases per quick run, hundreds per thorough run."
add("C10", "exploration",
    MULTI_TEXT + "No (partition, sequence) may hold two different transactions that carry a confirmation count >= quorum on any nodes.",
    MULTI_NOTE,
    "property-based generation of fault/operation schedules against a real multi-process cluster with a disk-state invariant", "§4 C10/C11")
add("C11", "exploration",
    MULTI_TEXT + "Every append acknowledged OK to a client must be stored with its event ids at the reported sequences on at least quorum nodes, carry a count >= quorum on at least one node, and no node may hold a different quorum-confirmed transaction there.",
    MULTI_NOTE + " The coordinator is not identifiable from the client side, so 'quorum count on the coordinator' is checked as 'on at least one node'.",
    "property-based generation of fault/operation schedules against a real multi-process cluster with a disk-state invariant", "§4 C10/C11")

NOT_BUILT = {}
ALL = ["C%02d" % i for i in range(1, 27)]
for i in ALL:
    if i not in CHECKS:
        NOT_BUILT[i] = "check not built yet in this session (work in progress; see DESIGN.md §7 build order)"

manifest = {
    "version": 1,
    "setup_cmd": "cd /verif && ./check --build",
    "hooks": {
        "guard": "cargo feature `verif-hooks` (crates seglog, sierradb, sierradb-cluster; off by default)",
        "enable": "the harness crates under /verif/harness depend on /repo/crates/* by path with features=[\"verif-hooks\"]; `./check` runs `cargo build --release` there before every check",
        "baseline_off_cmd": "cd /repo && cargo nextest run --workspace --no-fail-fast --test-threads 8 --offline || cargo test --workspace --no-fail-fast --offline",
        "source_commits": [l.split()[0] for l in HOOK_COMMITS],
        "add_only": True,
    },
    "engines": [
        {"name": "vstore", "path": "/verif/harness/vstore", "serves_properties": sorted(i for i in CHECKS if i in "C01 C02 C03 C04 C05 C06 C15 C16 C17 C18 C19 C20 C23 C25".split()),
         "kind_free_text": "Rust binary: proptest TestRunner over a u32 choice tape (seeded, shrinking), sharded worker processes, model/differential/round-trip oracles for seglog + sierradb"},
        {"name": "vnode", "path": "/verif/harness/vnode", "serves_properties": sorted(i for i in CHECKS if i not in "C01 C02 C03 C04 C05 C06 C15 C16 C17 C18 C19 C20 C23 C25".split()),
         "kind_free_text": "Rust binary: same engine for topology, cluster node, RESP server and client"},
    ],
    "checks": [],
    "notes": "Every check: ./check <ID> <quick|thorough>; exit 0 held / 1 VIOLATION / 2 inconclusive (build failure, watchdog). Known findings: /verif/known_findings.json. Regression inputs: /verif/corpus/<ID>/.",
    "not_applicable": [{"property_id": k, "reason": v} for k, v in sorted(NOT_BUILT.items())],
}
for i in sorted(CHECKS):
    c = CHECKS[i]
    manifest["checks"].append({
        "property_id": i,
        "quick_cmd": f"./check {i} quick",
        "thorough_cmd": f"./check {i} thorough",
        "evidence_file": f"/verif/evidence/{i}.json",
        "replay_cmd_template": "./check --replay {path}",
        "engine": "vstore" if i in "C01 C02 C03 C04 C05 C06 C15 C16 C17 C18 C19 C20 C23 C25".split() else "vnode",
        "level_claimed": {"category": c["cat"], "text": c["text"], "design_ref": c["ref"]},
        "level_note": c["note"],
        "technique": c["tech"],
    })
json.dump(manifest, open("/verif/MANIFEST.json", "w"), indent=1)
print("checks:", len(manifest["checks"]), "not_applicable:", len(manifest["not_applicable"]))
